//! Reference model of the Arimaa rules, stated square by square with (file, rank)
//! coordinates. It reads raw bitboard words only through `bit(w, i)` and shares no helper,
//! mask or shift macro with the engine. Square index i: file = i % 8 (a..h),
//! row = i / 8 (row 0 = rank 8), i.e. rank = 8 - i / 8.
#![allow(dead_code)]

/// Piece types by strength (matches the declaration order of the engine's `Piece`).
pub const R: u8 = 0;
pub const C: u8 = 1;
pub const D: u8 = 2;
pub const H: u8 = 3;
pub const M: u8 = 4;
pub const E: u8 = 5;

/// Directions (matches the declaration order of the engine's `Direction`).
pub const UP: u8 = 0; // north, towards rank 8
pub const RIGHT: u8 = 1; // east
pub const DOWN: u8 = 2; // south
pub const LEFT: u8 = 3; // west

#[derive(Clone, Copy, PartialEq, Eq, Debug)]
pub struct Board {
    pub p1: u64,
    /// indexed by piece type R..E
    pub t: [u64; 6],
}

#[derive(Clone, Copy, PartialEq, Eq, Debug)]
pub struct Cell {
    pub occ: bool,
    pub ty: u8,
    pub gold: bool,
}

pub const EMPTY: Cell = Cell {
    occ: false,
    ty: 0,
    gold: false,
};

#[derive(Clone, Copy, PartialEq, Eq, Debug)]
pub enum Pending {
    None,
    /// (square left by the mover's piece, its type)
    Pull(u8, u8),
    /// (square vacated by the displaced enemy piece, its type)
    Push(u8, u8),
}

#[inline(always)]
pub fn bit(w: u64, i: u8) -> bool {
    (w >> (i as u32)) & 1 == 1
}

impl Board {
    pub fn all(&self) -> u64 {
        self.t[0] | self.t[1] | self.t[2] | self.t[3] | self.t[4] | self.t[5]
    }

    /// B1: type boards pairwise disjoint, p1 within the union.
    pub fn well_formed(&self) -> bool {
        let t = &self.t;
        let mut seen = 0u64;
        let mut ok = true;
        each!([0usize, 1usize, 2usize, 3usize, 4usize, 5usize], k, {
            ok &= seen & t[k] == 0;
            seen |= t[k];
        });
        ok && (self.p1 & !seen == 0)
    }

    pub fn cell(&self, i: u8) -> Cell {
        let mut c = EMPTY;
        each!([0u8, 1u8, 2u8, 3u8, 4u8, 5u8], k, {
            if bit(self.t[k as usize], i) {
                c.occ = true;
                c.ty = k;
            }
        });
        c.gold = c.occ && bit(self.p1, i);
        c
    }

    /// B2: material limits per side.
    pub fn material_ok(&self) -> bool {
        let lim = [8u32, 2, 2, 2, 1, 1];
        let mut ok = true;
        each!([0usize, 1usize, 2usize, 3usize, 4usize, 5usize], k, {
            ok &= (self.t[k] & self.p1).count_ones() <= lim[k];
            ok &= (self.t[k] & !self.p1).count_ones() <= lim[k];
        });
        ok
    }

    /// B3: no piece on a trap without an orthogonally adjacent friendly piece.
    pub fn traps_supported(&self) -> bool {
        let mut ok = true;
        each!([0usize, 1usize, 2usize, 3usize], k, {
            let s = TRAPS[k];
            let c = self.cell(s);
            ok &= !c.occ || has_friend(self, s, c.gold);
        });
        ok
    }
}

pub fn file(i: u8) -> u8 {
    i % 8
}
pub fn row(i: u8) -> u8 {
    i / 8
}

/// c6, f6, c3, f3 by coordinates: file c=2 / f=5, rank 6 = row 2, rank 3 = row 5.
pub const TRAPS: [u8; 4] = [2 * 8 + 2, 2 * 8 + 5, 5 * 8 + 2, 5 * 8 + 5];

pub fn is_trap(i: u8) -> bool {
    (file(i) == 2 || file(i) == 5) && (row(i) == 2 || row(i) == 5)
}

/// The orthogonal neighbour of `i` in direction `d`, if it is on the board.
pub fn neighbour(i: u8, d: u8) -> Option<u8> {
    let f = file(i);
    let r = row(i);
    if d == UP {
        if r > 0 {
            Some(i - 8)
        } else {
            None
        }
    } else if d == RIGHT {
        if f < 7 {
            Some(i + 1)
        } else {
            None
        }
    } else if d == DOWN {
        if r < 7 {
            Some(i + 8)
        } else {
            None
        }
    } else if f > 0 {
        Some(i - 1)
    } else {
        None
    }
}

pub fn has_friend(b: &Board, i: u8, gold: bool) -> bool {
    let mut any = false;
    each!([0u8, 1u8, 2u8, 3u8], d, {
        if let Some(n) = neighbour(i, d) {
            let c = b.cell(n);
            any |= c.occ && c.gold == gold;
        }
    });
    any
}

pub fn has_stronger_enemy(b: &Board, i: u8, gold: bool, ty: u8) -> bool {
    let mut any = false;
    each!([0u8, 1u8, 2u8, 3u8], d, {
        if let Some(n) = neighbour(i, d) {
            let c = b.cell(n);
            any |= c.occ && c.gold != gold && c.ty > ty;
        }
    });
    any
}

/// A piece is frozen when a stronger enemy piece is adjacent and no friendly piece is.
pub fn frozen(b: &Board, i: u8) -> bool {
    let c = b.cell(i);
    c.occ && has_stronger_enemy(b, i, c.gold, c.ty) && !has_friend(b, i, c.gold)
}

/// Some unfrozen piece of colour `gold`, strictly stronger than `ty`, is adjacent to `i`.
pub fn has_unfrozen_stronger(b: &Board, i: u8, gold: bool, ty: u8) -> bool {
    let mut any = false;
    each!([0u8, 1u8, 2u8, 3u8], d, {
        if let Some(n) = neighbour(i, d) {
            let c = b.cell(n);
            any |= c.occ && c.gold == gold && c.ty > ty && !frozen(b, n);
        }
    });
    any
}

#[derive(Clone, Copy, PartialEq, Eq, Debug)]
pub enum StepKind {
    Illegal,
    Own,
    CompletePush,
    PullCompletion,
    PushStart,
}

/// Classifies the step "piece on `i` moves in direction `d`" for the mover `gold_to_move`
/// at step `step` (0..=3) with `pending`. Repetition rules aside.
pub fn classify_step(
    b: &Board,
    gold_to_move: bool,
    step: usize,
    pending: Pending,
    i: u8,
    d: u8,
) -> StepKind {
    let src = b.cell(i);
    if !src.occ {
        return StepKind::Illegal;
    }
    let t = match neighbour(i, d) {
        Some(t) => t,
        None => return StepKind::Illegal,
    };
    if b.cell(t).occ {
        return StepKind::Illegal;
    }
    if src.gold == gold_to_move {
        // own piece
        if frozen(b, i) {
            return StepKind::Illegal;
        }
        if src.ty == R {
            let backward = if gold_to_move { DOWN } else { UP };
            if d == backward {
                return StepKind::Illegal;
            }
        }
        match pending {
            Pending::Push(q, x) => {
                if t == q && src.ty > x {
                    StepKind::CompletePush
                } else {
                    StepKind::Illegal
                }
            }
            _ => StepKind::Own,
        }
    } else {
        // enemy piece displaced by the mover
        match pending {
            Pending::Push(_, _) => StepKind::Illegal,
            Pending::Pull(q, p) if t == q && p > src.ty => StepKind::PullCompletion,
            _ => {
                if step < 3 && has_unfrozen_stronger(b, i, gold_to_move, src.ty) {
                    StepKind::PushStart
                } else {
                    StepKind::Illegal
                }
            }
        }
    }
}

pub fn legal_step(b: &Board, gold: bool, step: usize, pending: Pending, i: u8, d: u8) -> bool {
    classify_step(b, gold, step, pending, i, d) != StepKind::Illegal
}

/// A pass is part of the rule-only list iff a step has been made and no push is pending.
pub fn pass_legal(step: usize, pending: Pending) -> bool {
    step >= 1 && !matches!(pending, Pending::Push(_, _))
}

/// T2: consistency of the pending status with the board.
pub fn pending_ok(b: &Board, gold_to_move: bool, step: usize, pending: Pending) -> bool {
    match pending {
        Pending::None => true,
        Pending::Pull(q, p) => step >= 1 && q < 64 && p != R && p <= E && !b.cell(q).occ,
        Pending::Push(q, x) => {
            step >= 1
                && q < 64
                && x < E
                && !b.cell(q).occ
                && has_unfrozen_stronger(b, q, gold_to_move, x)
        }
    }
}

/// Content of square `s` after the piece on `i` has been moved to `t` (before captures).
pub fn moved_cell(b: &Board, i: u8, t: u8, s: u8) -> Cell {
    if s == i {
        EMPTY
    } else if s == t {
        b.cell(i)
    } else {
        b.cell(s)
    }
}

/// Content of square `s` after the step (i -> t) including trap removal: a piece standing
/// on a trap with no friendly neighbour after the move is removed, nothing else is.
pub fn after_step_cell(b: &Board, i: u8, t: u8, s: u8) -> Cell {
    let c = moved_cell(b, i, t, s);
    if c.occ && is_trap(s) {
        let mut friend = false;
        each!([0u8, 1u8, 2u8, 3u8], d, {
            if let Some(n) = neighbour(s, d) {
                let nc = moved_cell(b, i, t, n);
                friend |= nc.occ && nc.gold == c.gold;
            }
        });
        if !friend {
            return EMPTY;
        }
    }
    c
}

/// Pending status after the (legal) step i->d from (b, gold_to_move, step, pending).
pub fn next_pending(b: &Board, gold_to_move: bool, step: usize, pending: Pending, i: u8, d: u8) -> Pending {
    if step >= 3 {
        return Pending::None;
    }
    let src = b.cell(i);
    match classify_step(b, gold_to_move, step, pending, i, d) {
        StepKind::PushStart => Pending::Push(i, src.ty),
        StepKind::Own => {
            if src.ty != R {
                Pending::Pull(i, src.ty)
            } else {
                Pending::None
            }
        }
        _ => Pending::None,
    }
}

#[derive(Clone, Copy, PartialEq, Eq, Debug)]
pub enum Outcome {
    GoldWin,
    SilverWin,
}

pub fn win_for(gold: bool) -> Outcome {
    if gold {
        Outcome::GoldWin
    } else {
        Outcome::SilverWin
    }
}

/// Some rabbit of colour `gold` stands on its goal rank (rank 8 = row 0 for Gold, rank 1 =
/// row 7 for Silver), any of the 8 files.
pub fn rabbit_on_goal(b: &Board, gold: bool) -> bool {
    let r = if gold { 0u8 } else { 7u8 };
    let mut any = false;
    each!([0u8, 1u8, 2u8, 3u8, 4u8, 5u8, 6u8, 7u8], f, {
        let c = b.cell(r * 8 + f);
        any |= c.occ && c.ty == R && c.gold == gold;
    });
    any
}

pub fn has_rabbit(b: &Board, gold: bool) -> bool {
    let rb = b.t[R as usize];
    if gold {
        rb & b.p1 != 0
    } else {
        rb & !b.p1 != 0
    }
}

/// The mover has at least one legal step (all 64 squares x 4 directions, straight-line).
pub fn has_legal_step(b: &Board, gold_to_move: bool, step: usize, pending: Pending) -> bool {
    let mut any = false;
    each!([0u8, 1, 2, 3, 4, 5, 6, 7], r, {
        each!([0u8, 1, 2, 3, 4, 5, 6, 7], f, {
            each!([0u8, 1, 2, 3], d, {
                any |= legal_step(b, gold_to_move, step, pending, r * 8 + f, d);
            });
        });
    });
    any
}

pub fn has_legal_step_at_turn_start(b: &Board, gold_to_move: bool) -> bool {
    has_legal_step(b, gold_to_move, 0, Pending::None)
}

/// Official order at the start of a turn; `gold_to_move` is the player to move, the other
/// player just moved. `mobile` = the mover has a legal step.
pub fn result_at_turn_start(b: &Board, gold_to_move: bool, mobile: bool) -> Option<Outcome> {
    let last = !gold_to_move;
    if rabbit_on_goal(b, last) {
        Some(win_for(last))
    } else if rabbit_on_goal(b, gold_to_move) {
        Some(win_for(gold_to_move))
    } else if !has_rabbit(b, gold_to_move) {
        Some(win_for(last))
    } else if !has_rabbit(b, last) {
        Some(win_for(gold_to_move))
    } else if !mobile {
        Some(win_for(last))
    } else {
        None
    }
}

/// Setup order: Gold a2..h2, a1..h1, then Silver a8..h8, a7..h7. k = placements done (0..32).
pub fn setup_next_square(k: u8) -> u8 {
    let within = k % 8;
    let rank = if k < 8 {
        2
    } else if k < 16 {
        1
    } else if k < 24 {
        8
    } else {
        7
    };
    (8 - rank) * 8 + within
}

pub fn setup_gold_to_move(k: u8) -> bool {
    k < 16
}

/// The full complement per type (R..E).
pub const COMPLEMENT: [u32; 6] = [8, 2, 2, 2, 1, 1];

// ---- symmetries (σ on squares / directions / boards) -------------------------------------

/// File mirror: a<->h.
pub fn mirror_sq(i: u8) -> u8 {
    row(i) * 8 + (7 - file(i))
}
pub fn mirror_dir(d: u8) -> u8 {
    if d == RIGHT {
        LEFT
    } else if d == LEFT {
        RIGHT
    } else {
        d
    }
}
/// Rank flip: rank r <-> 9 - r.
pub fn flip_sq(i: u8) -> u8 {
    (7 - row(i)) * 8 + file(i)
}
pub fn flip_dir(d: u8) -> u8 {
    if d == UP {
        DOWN
    } else if d == DOWN {
        UP
    } else {
        d
    }
}

/// Squares filled after k placements (k in 0..=32), by coordinates.
pub fn setup_filled(k: u8) -> u64 {
    let mut m = 0u64;
    each!(
        [0u8, 1, 2, 3, 4, 5, 6, 7, 8, 9, 10, 11, 12, 13, 14, 15, 16, 17, 18, 19, 20, 21, 22, 23, 24, 25, 26, 27, 28, 29, 30, 31],
        j,
        {
            if j < k {
                m |= 1u64 << (setup_next_square(j) as u32);
            }
        }
    );
    m
}

/// Gold's home ranks (1 and 2 = rows 7 and 6).
pub fn gold_home() -> u64 {
    let mut m = 0u64;
    each!([0u8, 1, 2, 3, 4, 5, 6, 7], f, {
        m |= 1u64 << ((6 * 8 + f) as u32);
        m |= 1u64 << ((7 * 8 + f) as u32);
    });
    m
}

/// Setup-state generator predicate: after k placements the first k squares of the order are
/// filled with arbitrary types within the per-side limits, owners by rank, all else empty.
pub fn setup_state_ok(b: &Board, k: u8) -> bool {
    b.well_formed() && b.all() == setup_filled(k) && b.p1 == (b.all() & gold_home()) && b.material_ok()
}
