//! Macros shared by the property bodies: the same source compiles under Kani and natively.

#[cfg(kani)]
#[macro_export]
macro_rules! vassume {
    ($c:expr) => {
        kani::assume($c)
    };
}
#[cfg(not(kani))]
#[macro_export]
macro_rules! vassume {
    ($c:expr) => {
        if !($c) {
            return $crate::Verdict::Skipped;
        }
    };
}

#[cfg(kani)]
#[macro_export]
macro_rules! vcover {
    ($c:expr, $m:literal) => {
        kani::cover!($c, $m)
    };
}
#[cfg(not(kani))]
#[macro_export]
macro_rules! vcover {
    ($c:expr, $m:literal) => {
        let _ = $c;
    };
}

/// Proof harness with the allocation-policy stubs and a projection of
/// `map_bit_board_to_squares` (focus | lowest).
#[macro_export]
macro_rules! harness {
    ($name:ident, unwind = $u:expr, stubs = alloc, $body:path) => {
        #[cfg(kani)]
        #[kani::proof]
        #[kani::unwind($u)]
        #[kani::stub(std::vec::Vec::reserve, $crate::stubs::vec_reserve)]
        #[kani::stub(std::vec::Vec::push, $crate::stubs::vec_push)]
        #[kani::stub(std::vec::Vec::with_capacity, $crate::stubs::vec_with_capacity)]
        pub fn $name() {
            let inp: $crate::scenario::Inp = kani::any();
            let _ = $body(&inp);
        }
    };
    ($name:ident, unwind = $u:expr, stubs = focus, $body:path) => {
        #[cfg(kani)]
        #[kani::proof]
        #[kani::unwind($u)]
        #[kani::stub(std::vec::Vec::reserve, $crate::stubs::vec_reserve)]
        #[kani::stub(std::vec::Vec::push, $crate::stubs::vec_push)]
        #[kani::stub(std::vec::Vec::with_capacity, $crate::stubs::vec_with_capacity)]
        #[kani::stub(arimaa_engine_step::action::map_bit_board_to_squares, $crate::stubs::mbts_focus)]
        pub fn $name() {
            let inp: $crate::scenario::Inp = kani::any();
            let _ = $body(&inp);
        }
    };
    ($name:ident, unwind = $u:expr, stubs = nohash, $body:path) => {
        #[cfg(kani)]
        #[kani::proof]
        #[kani::unwind($u)]
        #[kani::stub(std::vec::Vec::reserve, $crate::stubs::vec_reserve)]
        #[kani::stub(std::vec::Vec::push, $crate::stubs::vec_push)]
        #[kani::stub(std::vec::Vec::with_capacity, $crate::stubs::vec_with_capacity)]
        #[kani::stub(arimaa_engine_step::zobrist::Zobrist::move_piece, $crate::stubs::zobrist_move_piece_skip)]
        pub fn $name() {
            let inp: $crate::scenario::Inp = kani::any();
            let _ = $body(&inp);
        }
    };
    ($name:ident, unwind = $u:expr, stubs = indicator, $body:path) => {
        #[cfg(kani)]
        #[kani::proof]
        #[kani::unwind($u)]
        #[kani::stub(std::vec::Vec::reserve, $crate::stubs::vec_reserve)]
        #[kani::stub(std::vec::Vec::push, $crate::stubs::vec_push)]
        #[kani::stub(std::vec::Vec::with_capacity, $crate::stubs::vec_with_capacity)]
        #[kani::stub(arimaa_engine_step::zobrist::piece_value, $crate::stubs::piece_value_indicator)]
        pub fn $name() {
            let inp: $crate::scenario::Inp = kani::any();
            let _ = $body(&inp);
        }
    };
    ($name:ident, unwind = $u:expr, stubs = indicator3, $body:path) => {
        #[cfg(kani)]
        #[kani::proof]
        #[kani::unwind($u)]
        #[kani::stub(std::vec::Vec::reserve, $crate::stubs::vec_reserve)]
        #[kani::stub(std::vec::Vec::push, $crate::stubs::vec_push)]
        #[kani::stub(std::vec::Vec::with_capacity, $crate::stubs::vec_with_capacity)]
        #[kani::stub(arimaa_engine_step::zobrist::piece_value, $crate::stubs::piece_value_indicator)]
        #[kani::stub(arimaa_engine_step::action::map_bit_board_to_squares, $crate::stubs::mbts_upto3)]
        pub fn $name() {
            let inp: $crate::scenario::Inp = kani::any();
            let _ = $body(&inp);
        }
    };
    ($name:ident, unwind = $u:expr, stubs = absmove, $body:path) => {
        #[cfg(kani)]
        #[kani::proof]
        #[kani::unwind($u)]
        #[kani::stub(std::vec::Vec::reserve, $crate::stubs::vec_reserve)]
        #[kani::stub(std::vec::Vec::push, $crate::stubs::vec_push)]
        #[kani::stub(std::vec::Vec::with_capacity, $crate::stubs::vec_with_capacity)]
        #[kani::stub(arimaa_engine_step::zobrist::Zobrist::move_piece, $crate::stubs::zobrist_move_piece_abstract)]
        pub fn $name() {
            let inp: $crate::scenario::Inp = kani::any();
            let _ = $body(&inp);
        }
    };
    ($name:ident, unwind = $u:expr, stubs = nobt, $body:path) => {
        #[cfg(kani)]
        #[kani::proof]
        #[kani::unwind($u)]
        #[kani::stub(std::vec::Vec::reserve, $crate::stubs::vec_reserve)]
        #[kani::stub(std::vec::Vec::push, $crate::stubs::vec_push)]
        #[kani::stub(std::vec::Vec::with_capacity, $crate::stubs::vec_with_capacity)]
        #[kani::stub(anyhow::private::format_err, $crate::stubs::anyhow_format_err_cut)]
        pub fn $name() {
            let inp: $crate::scenario::Inp = kani::any();
            let _ = $body(&inp);
        }
    };
    ($name:ident, unwind = $u:expr, stubs = focusabs, $body:path) => {
        #[cfg(kani)]
        #[kani::proof]
        #[kani::unwind($u)]
        #[kani::stub(std::vec::Vec::reserve, $crate::stubs::vec_reserve)]
        #[kani::stub(std::vec::Vec::push, $crate::stubs::vec_push)]
        #[kani::stub(std::vec::Vec::with_capacity, $crate::stubs::vec_with_capacity)]
        #[kani::stub(arimaa_engine_step::action::map_bit_board_to_squares, $crate::stubs::mbts_focus)]
        #[kani::stub(arimaa_engine_step::zobrist::Zobrist::move_piece, $crate::stubs::zobrist_move_piece_abstract)]
        pub fn $name() {
            let inp: $crate::scenario::Inp = kani::any();
            let _ = $body(&inp);
        }
    };
    ($name:ident, unwind = $u:expr, stubs = lowabs, $body:path) => {
        #[cfg(kani)]
        #[kani::proof]
        #[kani::unwind($u)]
        #[kani::stub(std::vec::Vec::reserve, $crate::stubs::vec_reserve)]
        #[kani::stub(std::vec::Vec::push, $crate::stubs::vec_push)]
        #[kani::stub(std::vec::Vec::with_capacity, $crate::stubs::vec_with_capacity)]
        #[kani::stub(arimaa_engine_step::action::map_bit_board_to_squares, $crate::stubs::mbts_lowest)]
        #[kani::stub(arimaa_engine_step::zobrist::Zobrist::move_piece, $crate::stubs::zobrist_move_piece_abstract)]
        pub fn $name() {
            let inp: $crate::scenario::Inp = kani::any();
            let _ = $body(&inp);
        }
    };
    ($name:ident, unwind = $u:expr, stubs = lowest, $body:path) => {
        #[cfg(kani)]
        #[kani::proof]
        #[kani::unwind($u)]
        #[kani::stub(std::vec::Vec::reserve, $crate::stubs::vec_reserve)]
        #[kani::stub(std::vec::Vec::push, $crate::stubs::vec_push)]
        #[kani::stub(std::vec::Vec::with_capacity, $crate::stubs::vec_with_capacity)]
        #[kani::stub(arimaa_engine_step::action::map_bit_board_to_squares, $crate::stubs::mbts_lowest)]
        pub fn $name() {
            let inp: $crate::scenario::Inp = kani::any();
            let _ = $body(&inp);
        }
    };
    ($name:ident, unwind = $u:expr, stubs = none, $body:path) => {
        #[cfg(kani)]
        #[kani::proof]
        #[kani::unwind($u)]
        pub fn $name() {
            let inp: $crate::scenario::Inp = kani::any();
            let _ = $body(&inp);
        }
    };
}

/// Sets the focus square of the projection stub (no-op natively: the replayer runs the
/// real, un-projected engine and bodies filter the real list by the focus square).
#[cfg(kani)]
#[macro_export]
macro_rules! set_focus {
    ($f:expr) => {
        $crate::stubs::set_focus($f)
    };
}
#[cfg(not(kani))]
#[macro_export]
macro_rules! set_focus {
    ($f:expr) => {
        let _ = $f;
    };
}

/// Straight-line repetition (no loop for the model checker to unwind).
#[macro_export]
macro_rules! each {
    ([$($v:expr),*], $k:ident, $b:block) => {
        $( { let $k = $v; $b } )*
    };
}

/// Cover witness that applies only when a compile-time condition holds (other instances of a
/// generic body satisfy it trivially instead of reporting an unreachable witness).
#[macro_export]
macro_rules! vcover_if {
    ($k:expr, $c:expr, $m:literal) => {
        vcover!(!($k) || ($c), $m)
    };
}
