//! Native replayer: `replay <harness> <hex input>` runs the same property body against the
//! real, un-stubbed engine. Exit 1 = the violation reproduces (assertion failure or panic),
//! exit 0 = property held on this input, exit 3 = input outside the harness's assumptions.
use aes_verif::props::REGISTRY;
use aes_verif::scenario::{Inp, INP_LEN};
use aes_verif::Verdict;

fn main() {
    let args: Vec<String> = std::env::args().collect();
    if args.len() == 2 && args[1] == "--list" {
        for (n, _) in REGISTRY {
            println!("{}", n);
        }
        return;
    }
    if args.len() == 4 && args[1] == "--describe" {
        let inp = parse_hex(&args[3]);
        println!("{}", describe_for(&args[2], &inp));
        return;
    }
    if args.len() != 3 {
        eprintln!("usage: replay <harness> <hex bytes> | --list");
        std::process::exit(2);
    }
    let body = match REGISTRY.iter().find(|(n, _)| *n == args[1]) {
        Some((_, b)) => *b,
        None => {
            eprintln!("unknown harness {}", args[1]);
            std::process::exit(2);
        }
    };
    let inp = parse_hex(&args[2]);
    let r = std::panic::catch_unwind(move || body(&inp));
    match r {
        Ok(Verdict::Held) => {
            println!("REPLAY held");
            std::process::exit(0)
        }
        Ok(Verdict::Skipped) => {
            println!("REPLAY skipped (input outside the assumptions)");
            std::process::exit(3)
        }
        Err(_) => {
            println!("REPLAY reproduced");
            std::process::exit(1)
        }
    }
}

fn parse_hex(hex: &str) -> Inp {
    let hex = hex.trim();
    let mut inp: Inp = [0u8; INP_LEN];
    let bytes: Vec<u8> = (0..hex.len() / 2)
        .map(|k| u8::from_str_radix(&hex[2 * k..2 * k + 2], 16).expect("hex"))
        .collect();
    for (k, b) in bytes.iter().enumerate().take(INP_LEN) {
        inp[k] = *b;
    }
    inp
}

/// Human-readable scenario for evidence/replay files. Step and pending kind are concrete per
/// harness and encoded in its name (`_s<step>_<none|pull|push>`).
fn describe_for(harness: &str, inp: &Inp) -> String {
    use aes_verif::scenario::{decode, describe, HIST_MAX, KIND_NONE, KIND_PULL, KIND_PUSH};
    let mut step = 0usize;
    for k in 0..4 {
        if harness.contains(&format!("_s{}", k)) {
            step = k;
        }
    }
    let kind = if harness.contains("_pull") {
        KIND_PULL
    } else if harness.contains("_push") {
        KIND_PUSH
    } else {
        KIND_NONE
    };
    match aes_verif::props::describe_special(harness, inp) {
        Some(s) => s,
        None => describe(&decode(inp, step, kind, HIST_MAX)),
    }
}
