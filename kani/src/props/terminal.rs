//! C04: the result reported at the start of a turn follows the official order; mid-turn and
//! setup states are not ended by a goal rabbit or a lost last rabbit.
//!
//! `has_move` only asks each generator whether its list is empty, so the harnesses run with the
//! lowest-bit projection of `map_bit_board_to_squares` (exact for emptiness, DESIGN §5 C04).
#![allow(unused_variables)]

use crate::model::{self, Outcome, Pending};
use crate::scenario::*;
use crate::Verdict;
use arimaa_engine_step::Terminal;

pub fn outcome_of(t: &Option<Terminal>) -> Option<Outcome> {
    match t {
        None => None,
        Some(Terminal::GoldWin) => Some(Outcome::GoldWin),
        Some(Terminal::SilverWin) => Some(Outcome::SilverWin),
    }
}

pub fn c04_start(inp: &Inp) -> Verdict {
    let s = decode(inp, 0, KIND_NONE, 0);
    vassume!(s.board.well_formed());
    let gs = build_state(&s);
    let got = outcome_of(&gs.is_terminal());
    // "has a legal step" = "is offered a step": offered = legal is C01 (all boards); under the
    // lowest-bit projection the emptiness of the offered list is exact. The model side is tied in
    // by a solver-chosen witness: any model-legal step (i*, d*) implies mobility.
    let va = gs.valid_actions();
    let mobile = !va.is_empty();
    if model::legal_step(&s.board, s.gold, 0, Pending::None, s.a_sq, s.a_dir) {
        assert!(mobile, "C04/C01: a legal step exists but no action is offered at the start of a turn");
    }
    let want = model::result_at_turn_start(&s.board, s.gold, mobile);
    assert!(got == want, "C04: result at turn start differs from the official win-condition order");
    let last = !s.gold;
    vcover!(
        model::rabbit_on_goal(&s.board, last) && model::rabbit_on_goal(&s.board, s.gold),
        "C04 witness: both sides have a rabbit on goal"
    );
    vcover!(
        !model::rabbit_on_goal(&s.board, last)
            && !model::rabbit_on_goal(&s.board, s.gold)
            && !model::has_rabbit(&s.board, last)
            && !model::has_rabbit(&s.board, s.gold),
        "C04 witness: neither side has a rabbit"
    );
    vcover!(
        want == Some(model::win_for(last))
            && model::has_rabbit(&s.board, s.gold)
            && model::has_rabbit(&s.board, last)
            && !model::rabbit_on_goal(&s.board, last)
            && !model::rabbit_on_goal(&s.board, s.gold)
            && !mobile,
        "C04 witness: loss by immobilisation"
    );
    vcover!(want.is_none() && model::has_rabbit(&s.board, true) && model::has_rabbit(&s.board, false), "C04 witness: game not over");
    std::mem::forget(va);
    std::mem::forget(gs);
    Verdict::Held
}

/// Mid-turn: the only way to a result is having no action; a goal rabbit or a lost last rabbit
/// does not by itself end the game. (Exact mid-turn equivalence with the offered list: C07.)
pub fn c04_mid<const STEP: usize, const KIND: u8>(inp: &Inp) -> Verdict {
    // empty history: the pass can still be withheld (symbolic turn-initial hash), so both the
    // early exit of has_move and its generator paths are exercised
    let s = decode(inp, STEP, KIND, 0);
    vassume!(inv_rules(&s));
    // at step 3 the repetition rules may withhold every step unless a capture happened this
    // turn; the hash-dependent part belongs to C07/C05, here a capture is assumed
    // CONCRETE flag (not an assumption on a symbolic one): the engine then never enters the
    // hash-dependent 4th-step filter, which these projected runs cannot evaluate
    let mut s = s;
    if STEP == 3 {
        s.trapped = true;
    }
    let gs = build_state(&s);
    let got = outcome_of(&gs.is_terminal());
    // solver-chosen witness instead of a 256-way enumeration: (a_sq, a_dir) ranges over all steps
    let any_step = model::legal_step(&s.board, s.gold, s.step, s.pending, s.a_sq, s.a_dir);
    if any_step {
        assert!(got.is_none(), "C04: a mid-turn state with a legal step reports a result");
    }
    if let Some(o) = got {
        assert!(o == model::win_for(!s.gold), "C04: mid-turn result is not a loss for the player on move");
    }
    vcover!(
        any_step && (model::rabbit_on_goal(&s.board, true) || model::rabbit_on_goal(&s.board, false)),
        "C04 witness: rabbit on a goal rank mid-turn, game goes on"
    );
    vcover!(
        any_step && (!model::has_rabbit(&s.board, true) || !model::has_rabbit(&s.board, false)),
        "C04 witness: a side without rabbits mid-turn, game goes on"
    );
    std::mem::forget(gs);
    Verdict::Held
}
