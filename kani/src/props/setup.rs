//! C09: setup. The state generator ranges over every reachable setup board (not over
//! placement orders): after k placements the first k squares of the fixed order are filled with
//! arbitrary types within the per-side limits.
#![allow(unused_variables)]

use crate::model::{self, Board};
use crate::scenario::*;
use crate::Verdict;
use arimaa_engine_step::{Action, GameState, Phase, PushPullState, Zobrist};

pub fn build_setup_state(b: &Board, k: u8, hash: u64) -> GameState {
    GameState::new(
        model::setup_gold_to_move(k),
        1,
        Phase::PlacePhase,
        piece_board_of(b),
        Zobrist::from_raw(hash),
    )
}

/// Number of pieces of type `ty` the mover (by k) has placed.
fn placed(b: &Board, gold: bool, ty: u8) -> u32 {
    let side = if gold { b.p1 } else { b.all() & !b.p1 };
    (b.t[ty as usize] & side).count_ones()
}

pub fn c09_offered(inp: &Inp) -> Verdict {
    let s = decode(inp, 0, KIND_NONE, 0);
    let k = s.aux % 32;
    vassume!(model::setup_state_ok(&s.board, k));
    let gold = model::setup_gold_to_move(k);
    let gs = build_setup_state(&s.board, k, s.hash);
    assert!(!gs.is_play_phase(), "C09: setup state is not in the setup phase");
    let list = gs.valid_actions();
    assert!(list.len() <= 6, "C09: more than six placements offered");
    let mut seen = [false; 6];
    each!([0usize, 1, 2, 3, 4, 5], i, {
        if i < list.len() {
            match list[i] {
                Action::Place(p) => {
                    let ty = ty_of(p);
                    assert!(
                        placed(&s.board, gold, ty) < model::COMPLEMENT[ty as usize],
                        "C09: a piece type is offered although its full complement is placed"
                    );
                    assert!(!seen[ty as usize], "C09: a placement is offered twice");
                    seen[ty as usize] = true;
                }
                _ => assert!(false, "C09: a non-placement action is offered during setup"),
            }
        }
    });
    each!([0u8, 1, 2, 3, 4, 5], ty, {
        if placed(&s.board, gold, ty) < model::COMPLEMENT[ty as usize] {
            assert!(seen[ty as usize], "C09: a piece type with pieces left to place is not offered");
        }
    });
    assert!(list.len() >= 1, "C09/C07: no placement offered during setup");
    assert!(gs.is_terminal().is_none(), "C04/C07: a result is reported during setup");
    vcover!(list.len() == 1 && k == 15, "C09 witness: Gold's last placement, one type left");
    vcover!(list.len() == 6 && k >= 20, "C09 witness: Silver mid-setup, all six types still available");
    std::mem::forget(list);
    std::mem::forget(gs);
    Verdict::Held
}

pub fn c09_place(inp: &Inp) -> Verdict {
    let s = decode(inp, 0, KIND_NONE, 0);
    let k = s.aux % 32;
    vassume!(model::setup_state_ok(&s.board, k));
    let gold = model::setup_gold_to_move(k);
    let ty = s.a_dir as u8 + if s.trapped { 4 } else { 0 };
    vassume!(ty < 6);
    // the placement is one the engine offers (c09_offered: offered <=> complement not exhausted)
    vassume!(placed(&s.board, gold, ty) < model::COMPLEMENT[ty as usize]);
    let gs = build_setup_state(&s.board, k, s.hash);
    let ns = gs.take_action(&Action::Place(piece_of(ty)));
    let sq = model::setup_next_square(k);
    // expected board: the old one plus (ty, mover) on the next free home square
    let mut want = s.board;
    want.t[ty as usize] |= 1u64 << (sq as u32);
    if gold {
        want.p1 |= 1u64 << (sq as u32);
    }
    let pb = ns.piece_board();
    let nb = board_of(pb);
    assert!(
        nb.p1 == want.p1
            && nb.t[0] == want.t[0]
            && nb.t[1] == want.t[1]
            && nb.t[2] == want.t[2]
            && nb.t[3] == want.t[3]
            && nb.t[4] == want.t[4]
            && nb.t[5] == want.t[5],
        "C09: placement did not put the chosen piece of the mover's colour on the next home square (or changed something else)"
    );
    assert!(pb.all_pieces == want.all(), "C09/C10: all_pieces inconsistent after a placement");
    let c = nb.cell(sq);
    assert!(c.occ && c.ty == ty && c.gold == gold, "C09: placed piece has wrong type or owner");
    if k + 1 < 32 {
        assert!(model::setup_state_ok(&nb, k + 1), "C09: setup invariant broken");
        assert!(!ns.is_play_phase(), "C09: play phase started early");
        assert!(ns.is_p1_turn_to_move() == model::setup_gold_to_move(k + 1), "C09: wrong side to move during setup");
        assert!(ns.move_number() == 1, "C09: move number during setup is not 1");
    } else {
        assert!(ns.is_play_phase(), "C09: play phase did not start after the 32nd placement");
        assert!(ns.is_p1_turn_to_move(), "C09: Gold is not on move when play starts");
        assert!(ns.move_number() == 2, "C09: play does not start at move 2");
        let pp = ns.unwrap_play_phase();
        assert!(pp.step() == 0, "C09: play does not start at step 0");
        assert!(matches!(pp.push_pull_state(), PushPullState::None), "C09: something pending when play starts");
        assert!(!pp.piece_trapped_this_turn(), "C09: capture flag set when play starts");
        assert!(pp.hash_history().len() == 1, "C09: history at play start is not the single start position");
        // INV base case (B1, B2; B3 trivially: no home square is a trap)
        assert!(nb.well_formed() && nb.material_ok(), "C09/C10: first play position violates the board invariant");
        assert!(
            nb.all() == model::setup_filled(32),
            "C09: first play position is not the two full home ranks of each side"
        );
    }
    vcover!(k == 15, "C09 witness: Gold's sixteenth placement");
    vcover!(k == 31, "C09 witness: Silver's sixteenth placement");
    vcover!(k == 20 && ty == 0, "C09 witness: Silver places a rabbit on rank 8");
    std::mem::forget(ns);
    std::mem::forget(gs);
    Verdict::Held
}

/// The very first state: `GameState::initial()` is the generator's k = 0 state.
pub fn c09_initial(_inp: &Inp) -> Verdict {
    let gs = GameState::initial();
    let b = board_of(gs.piece_board());
    assert!(model::setup_state_ok(&b, 0), "C09: initial state is not the empty board");
    assert!(gs.is_p1_turn_to_move() && !gs.is_play_phase() && gs.move_number() == 1, "C09: initial state header");
    vcover!(b.all() == 0, "C09 witness: empty board");
    Verdict::Held
}
