//! C01: the rule-only action list equals the legal steps of the rule model.
//!
//! * `c01_proj`  - all boards; `map_bit_board_to_squares` replaced by its projection on a
//!                 symbolic focus square f (DESIGN §3.4). Decided facts, for every f:
//!                 completeness (every legal step from f is listed), soundness (every listed
//!                 entry is legal; entries from other squares can only be pull completions),
//!                 pass <=> legal pass, no entry listed twice.
//! * `c01_small` - un-projected whole function on boards with <= KP pieces: same facts for
//!                 the complete real list (shows the callers consume the squares element-wise).
//! * `mbts_contract` - the real loop returns exactly the set bits, ascending, each once.
#![allow(unused_variables)]

use crate::model::{self, Pending, StepKind};
use crate::scenario::*;
use crate::Verdict;
use arimaa_engine_step::{map_bit_board_to_squares, Action};

/// (kind, square, direction): kind 0 = Move, 1 = Pass, 2 = Place.
pub fn ent(a: &Action) -> (u8, u8, u8) {
    match a {
        Action::Move(s, d) => (0, s.index() as u8, d_of(*d)),
        Action::Pass => (1, 0, 0),
        Action::Place(_) => (2, 0, 0),
    }
}

/// Facts about a (possibly projected) list; `focus` = Some(f) under projection.
/// `max` is the (concrete) iteration bound; a longer list fails the CUT assertion (never a
/// pass). Soundness and distinctness are stated for ONE symbolic entry index k (and one symbolic
/// j < k): the solver quantifies over the indices, so every entry / every pair is covered with a
/// single evaluation of the rule model (checking all 9 entries in one formula did not finish
/// within the cap). Plain loops with a concrete bound keep the goto program small.
fn check_list(s: &Scn, list: &Vec<Action>, focus: Option<u8>, max: usize, k: usize, j: usize) {
    let len = list.len();
    assert!(len <= max, "CUT: action list longer than the unrolling width");
    // pass <=> legal pass (scan of the kinds only)
    let mut has_pass = false;
    let mut i = 0usize;
    while i < max {
        if i < len {
            let (kind, _, _) = ent(&list[i]);
            assert!(kind != 2, "C01: a placement is offered in the play phase");
            has_pass |= kind == 1;
        }
        i += 1;
    }
    assert!(
        has_pass == model::pass_legal(s.step, s.pending),
        "C01: pass offered <=> a step was made and no push is pending - violated"
    );
    if k < len {
        let (kind, sq, dir) = ent(&list[k]);
        if kind == 0 {
            let c = model::classify_step(&s.board, s.gold, s.step, s.pending, sq, dir);
            assert!(c != StepKind::Illegal, "C01: an offered step is not a legal step, push or pull");
            if let Some(f) = focus {
                assert!(
                    sq == f || c == StepKind::PullCompletion || c == StepKind::CompletePush,
                    "C01: projection broken (entry from a non-focus square that is no pull/push completion)"
                );
            }
        }
        // no action listed twice
        if j < k {
            let (kind2, sq2, dir2) = ent(&list[j]);
            assert!(
                !(kind2 == kind && (kind != 0 || (sq2 == sq && dir2 == dir))),
                "C01: an action is listed twice"
            );
        }
    }
}

fn contains_move(list: &Vec<Action>, max: usize, i: u8, d: u8) -> bool {
    let len = list.len();
    let mut found = false;
    let mut k = 0usize;
    while k < max {
        if k < len {
            let (kind, sq, dir) = ent(&list[k]);
            found |= kind == 0 && sq == i && dir == d;
        }
        k += 1;
    }
    found
}

/// Native replay oracle: the whole real list against the whole model (all 64 x 4 steps).
#[cfg(not(kani))]
fn check_full_native(s: &Scn, list: &Vec<Action>) {
    let mut n_moves = 0usize;
    for a in list.iter() {
        let (kind, sq, dir) = ent(a);
        assert!(kind != 2, "C01: a placement is offered in the play phase");
        if kind == 1 {
            assert!(model::pass_legal(s.step, s.pending), "C01: pass offered although illegal");
        } else {
            n_moves += 1;
            assert!(
                model::legal_step(&s.board, s.gold, s.step, s.pending, sq, dir),
                "C01: an offered step is not a legal step, push or pull"
            );
        }
    }
    for (k, a) in list.iter().enumerate() {
        for b in list.iter().skip(k + 1) {
            assert!(ent(a) != ent(b), "C01: an action is listed twice");
        }
    }
    let mut want = 0usize;
    for i in 0..64u8 {
        for d in 0..4u8 {
            if model::legal_step(&s.board, s.gold, s.step, s.pending, i, d) {
                want += 1;
                assert!(
                    list.iter().any(|a| ent(a) == (0, i, d)),
                    "C01: a legal step is not offered"
                );
            }
        }
    }
    assert!(want == n_moves, "C01: number of offered steps differs from the rule model");
    assert!(
        list.iter().any(|a| ent(a).0 == 1) == model::pass_legal(s.step, s.pending),
        "C01: pass offered <=> a step was made and no push is pending"
    );
}

pub fn c01_proj<const STEP: usize, const KIND: u8>(inp: &Inp) -> Verdict {
    let s = decode(inp, STEP, KIND, 0);
    vassume!(inv_rules(&s));
    let f = s.a_sq;
    set_focus!(f);
    let gs = build_state(&s);
    let list = gs.valid_actions_no_rep();
    #[cfg(kani)]
    {
        // soundness, pass, no duplicates - on the projection of the real list on f
        // (projected length: <= 4 entries from f + <= 3 pulls from elsewhere + pass; a pending
        // push lists <= 4 completions)
        let max = if KIND == KIND_PUSH { 4 } else { 9 };
        check_list(&s, &list, Some(f), max, (s.aux % 16) as usize, (s.probe % 16) as usize);
        // completeness: every legal step from the focus square is listed
        let d = s.a_dir;
        let c = model::classify_step(&s.board, s.gold, s.step, s.pending, f, d);
        if c != StepKind::Illegal {
            assert!(contains_move(&list, max, f, d), "C01: a legal step is not offered");
        }
        let src = s.board.cell(f);
        vcover_if!(KIND != KIND_PUSH && STEP < 3, c == StepKind::PushStart, "C01 witness: a push start is offered");
        vcover_if!(KIND == KIND_PULL, c == StepKind::PullCompletion, "C01 witness: a pull completion is offered");
        vcover_if!(
            KIND == KIND_PULL && STEP < 3,
            c == StepKind::PullCompletion && model::has_unfrozen_stronger(&s.board, f, s.gold, src.ty),
            "C01 witness: the same enemy step could be a pull completion or a push start"
        );
        vcover_if!(KIND == KIND_PUSH, c == StepKind::CompletePush, "C01 witness: a push completion is offered");
        vcover!(
            c == StepKind::Illegal
                && src.occ
                && src.gold == s.gold
                && model::frozen(&s.board, f)
                && match model::neighbour(f, d) {
                    Some(t) => !s.board.cell(t).occ,
                    None => false,
                },
            "C01 witness: a step onto an empty square is refused because the piece is frozen"
        );
    }
    #[cfg(not(kani))]
    check_full_native(&s, &list);
    std::mem::forget(list);
    std::mem::forget(gs);
    Verdict::Held
}

pub fn c01_small<const STEP: usize, const KIND: u8, const KP: u32>(inp: &Inp) -> Verdict {
    let s = decode(inp, STEP, KIND, 0);
    vassume!(inv_rules(&s));
    vassume!(s.board.all().count_ones() <= KP);
    let gs = build_state(&s);
    let list = gs.valid_actions_no_rep();
    #[cfg(kani)]
    {
        let max = (4 * KP + 1) as usize;
        check_list(&s, &list, None, max, (s.aux % 32) as usize, (s.probe % 32) as usize);
        let c = model::classify_step(&s.board, s.gold, s.step, s.pending, s.a_sq, s.a_dir);
        if c != StepKind::Illegal {
            assert!(contains_move(&list, max, s.a_sq, s.a_dir), "C01: a legal step is not offered");
        }
        vcover_if!(KIND != KIND_PUSH, list.len() as u32 >= 2 * KP, "C01 witness: a long un-projected list");
        vcover_if!(KIND != KIND_PUSH && STEP < 3, c == StepKind::PushStart, "C01 witness (small): a push start is offered");
    }
    #[cfg(not(kani))]
    check_full_native(&s, &list);
    std::mem::forget(list);
    std::mem::forget(gs);
    Verdict::Held
}

/// Contract of the real loop behind the projections: exactly the set bits, ascending, once.
pub fn mbts_contract<const K: u32>(inp: &Inp) -> Verdict {
    let s = decode(inp, 0, KIND_NONE, 0);
    let m = s.board.p1;
    vassume!(m.count_ones() <= K);
    let v = map_bit_board_to_squares(m);
    assert!(v.len() as u32 == m.count_ones(), "mbts: length differs from the number of set bits");
    let mut acc = 0u64;
    let mut last: i32 = -1;
    each!([0usize, 1, 2, 3, 4, 5, 6, 7, 8, 9, 10, 11], k, {
        if k < K as usize && k < v.len() {
            let i = v[k].index() as i32;
            assert!(i > last, "mbts: squares not strictly ascending");
            assert!(i < 64, "mbts: index out of range");
            last = i;
            acc |= 1u64 << (i as u32);
        }
    });
    assert!(acc == m, "mbts: returned squares are not exactly the set bits");
    vcover!(v.len() as u32 == K, "mbts witness: K bits set");
    std::mem::forget(v);
    Verdict::Held
}
