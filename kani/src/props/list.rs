//! C20: stack use does not grow with the length of the history list.
//!
//! The solver has no stack model, but CBMC bounds and checks *recursion depth* separately from
//! loop iterations: the driver runs these harnesses with a global unwind bound of 3 and an
//! `--unwindset` entry (N+2) for every *loop* of the goto program (ids read from
//! `cbmc --show-loops`), so only recursion is limited to depth 3. A
//! "recursion unwinding assertion" failing for a list of symbolic length n <= N means some
//! function recurses once per node.
#![allow(unused_variables)]

use crate::scenario::*;
use crate::Verdict;
use arimaa_engine_step::{Action, List, Zobrist};

pub fn c20_list<const N: usize>(inp: &Inp) -> Verdict {
    // concrete length per instance (N = 1, 2, 12, 32): with a symbolic length every reference count
    // is symbolic and the run does not finish; the contents stay symbolic
    let n = N;
    let mut l: List<Zobrist> = List::new();
    let mut k = 0usize;
    while k < N {
        if k < n {
            l = l.append(Zobrist::from_raw(inp[8 + (k % 64)] as u64));
        }
        k += 1;
    }
    assert!(l.len() == n, "C20: list length");
    let c = l.clone();
    let twice = arimaa_engine_step::engine::verif_hooks::hash_history_contains_hash_twice(&c, &Zobrist::from_raw(7));
    vcover!(n == N && inp[8] == 7, "C20 witness: list of the instance's length, first entry equals the probe");
    vcover_if!(N >= 2, twice, "C20 witness: a hash occurs twice in the history");
    drop(l);
    drop(c);
    Verdict::Held
}

/// The same at the level of a game state: a turn ends (history grows), the old and the new
/// state are cloned and dropped.
pub fn c20_state(inp: &Inp) -> Verdict {
    let s = decode(inp, 1, KIND_NONE, 2);
    vassume!(inv_rules(&s));
    let gs = build_state(&s);
    let ns = gs.take_action(&Action::Pass);
    let c = ns.clone();
    let can = c.can_pass(true);
    vcover!(s.hist_len == 2 && s.hist[0] == s.hist[1], "C20 witness: two equal history entries");
    drop(gs);
    drop(ns);
    drop(c);
    Verdict::Held
}

/// Native corroboration (not the deciding step): a capture-free history of 300 000 turns is
/// built and dropped on a 2 MiB thread; a stack overflow aborts the process.
pub fn c20_native_deep(_inp: &Inp) -> Verdict {
    #[cfg(not(kani))]
    {
        let h = std::thread::Builder::new()
            .stack_size(2 * 1024 * 1024)
            .spawn(|| {
                let mut l: List<Zobrist> = List::new();
                for k in 0..300_000u64 {
                    l = l.append(Zobrist::from_raw(k));
                }
                let c = l.clone();
                let n = c.iter().count();
                drop(c);
                drop(l);
                n
            })
            .unwrap();
        let n = h.join().unwrap();
        assert!(n == 300_000);
    }
    Verdict::Held
}

/// Native corroboration for the repetition query: scanning a 300 000-entry history for a hash
/// that does not occur, on a 2 MiB thread.
pub fn c20_native_query(_inp: &Inp) -> Verdict {
    #[cfg(not(kani))]
    {
        let h = std::thread::Builder::new()
            .stack_size(2 * 1024 * 1024)
            .spawn(|| {
                let mut l: List<Zobrist> = List::new();
                for k in 0..300_000u64 {
                    l = l.append(Zobrist::from_raw(k + 10));
                }
                let r = arimaa_engine_step::engine::verif_hooks::hash_history_contains_hash_twice(&l, &Zobrist::from_raw(1));
                std::mem::forget(l);
                r
            })
            .unwrap();
        let r = h.join().unwrap();
        assert!(!r);
    }
    Verdict::Held
}
