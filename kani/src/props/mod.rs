//! Property bodies and their harness instances. `REGISTRY` maps harness names to native
//! entry points for the replayer.

pub mod take;

use crate::scenario::{KIND_NONE, KIND_PULL, KIND_PUSH};
use crate::Body;

/// Declares a Kani proof harness and its native replay entry in one place.
macro_rules! decl {
    ($( $name:ident : $stubs:ident, $unwind:expr, $body:path ; )*) => {
        $( harness!($name, unwind = $unwind, stubs = $stubs, $body); )*
        pub const REGISTRY: &[(&str, Body)] = &[
            $( (stringify!($name), $body as Body), )*
        ];
    };
}

decl! {
    // ---- C02 ----
    c02_move_s0_none: nohash, 8, take::c02_move::<0, KIND_NONE>;
    c02_move_s1_none: nohash, 8, take::c02_move::<1, KIND_NONE>;
    c02_move_s1_pull: nohash, 8, take::c02_move::<1, KIND_PULL>;
    c02_move_s1_push: nohash, 8, take::c02_move::<1, KIND_PUSH>;
    c02_move_s2_none: nohash, 8, take::c02_move::<2, KIND_NONE>;
    c02_move_s2_pull: nohash, 8, take::c02_move::<2, KIND_PULL>;
    c02_move_s2_push: nohash, 8, take::c02_move::<2, KIND_PUSH>;
    c02_move_s3_none: nohash, 8, take::c02_move::<3, KIND_NONE>;
    c02_move_s3_pull: nohash, 8, take::c02_move::<3, KIND_PULL>;
    c02_move_s3_push: nohash, 8, take::c02_move::<3, KIND_PUSH>;
    c02_pass_s1_pull: nohash, 8, take::c02_pass::<1, KIND_PULL>;
    c02_pass_s3_none: nohash, 8, take::c02_pass::<3, KIND_NONE>;
}

/// Harness families whose input is not a play-phase scenario describe themselves here.
pub fn describe_special(_harness: &str, _inp: &crate::scenario::Inp) -> Option<String> {
    None
}
