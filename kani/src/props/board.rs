//! C10: all views of the board describe one consistent legal position.
//! B1/B2/B3 are conjuncts of the inductive invariant: preservation by every legal step is
//! decided here (setup: `setup::c09_place`), accessor agreement on arbitrary B1 boards.
#![allow(unused_variables)]

use crate::model::{self, Board};
use crate::scenario::*;
use crate::Verdict;
use arimaa_engine_step::Square;

/// B1 + B2 + B3 hold after every legal step from a B1+B2+T2 state (B3 is *established* by the
/// first action even if the pre-state - e.g. a parsed position - violates it).
pub fn c10_step<const STEP: usize, const KIND: u8>(inp: &Inp) -> Verdict {
    let s = decode(inp, STEP, KIND, 0);
    vassume!(inv_rules(&s));
    vassume!(s.board.material_ok());
    vassume!(model::legal_step(&s.board, s.gold, s.step, s.pending, s.a_sq, s.a_dir));
    let t = model::neighbour(s.a_sq, s.a_dir);
    vassume!(t.is_some());
    let t = match t {
        Some(t) => t,
        None => 0,
    };
    let gs = build_state(&s);
    let ns = gs.take_action(&action_of(s.a_sq, s.a_dir));
    let pb = ns.piece_board();
    let nb = board_of(pb);
    assert!(nb.well_formed(), "C10: a square holds two piece types or a gold flag without a piece");
    assert!(pb.all_pieces == nb.all(), "C10: all-pieces board disagrees with the per-type boards");
    assert!(nb.traps_supported(), "C10: a piece stands on a trap without a friendly neighbour after an action");
    // B2 without popcount circuits: each (type, side) word is a subset of the old word with the
    // moved bit relocated, so no count can grow.
    let src = 1u64 << (s.a_sq as u32);
    let dst = 1u64 << (t as u32);
    each!([0usize, 1, 2, 3, 4, 5], k, {
        each!([true, false], gold, {
            let old = if gold { s.board.t[k] & s.board.p1 } else { s.board.t[k] & !s.board.p1 };
            let new = if gold { nb.t[k] & nb.p1 } else { nb.t[k] & !nb.p1 };
            let moved = old & src != 0;
            let allowed = if moved { (old & !src) | dst } else { old };
            assert!(new & !allowed == 0, "C10: material of some type and side grew");
        });
    });
    vcover!(!s.board.traps_supported(), "C10 witness: pre-state with an unsupported trap piece (parsed position)");
    std::mem::forget(ns);
    std::mem::forget(gs);
    Verdict::Held
}

/// Accessors agree with the raw words on every B1 board, for a symbolic square/type/side.
pub fn c10_access(inp: &Inp) -> Verdict {
    let s = decode(inp, 0, KIND_NONE, 0);
    vassume!(s.board.well_formed());
    let gs = build_state(&s);
    let pb = gs.piece_board();
    let i = s.probe;
    let c = s.board.cell(i);
    let sq = Square::from_index(i);
    // square lookup
    match pb.piece_type_at_square(&sq) {
        None => assert!(!c.occ, "C10: square lookup says empty on an occupied square"),
        Some(p) => {
            assert!(c.occ, "C10: square lookup reports a piece on an empty square");
            assert!(ty_of(p) == c.ty, "C10: square lookup reports the wrong piece type");
        }
    }
    // per-type / per-side views
    let ty = s.a_dir + if s.trapped { 4 } else { 0 };
    vassume!(ty < 6);
    let p = piece_of(ty);
    assert!(
        model::bit(pb.bits_by_piece_type(p), i) == (c.occ && c.ty == ty),
        "C10: per-type board disagrees with the square content"
    );
    assert!(
        model::bit(pb.bits_for_piece(p, true), i) == (c.occ && c.ty == ty && c.gold),
        "C10: gold per-type board disagrees with the square content"
    );
    assert!(
        model::bit(pb.bits_for_piece(p, false), i) == (c.occ && c.ty == ty && !c.gold),
        "C10: silver per-type board disagrees with the square content"
    );
    assert!(model::bit(pb.player_piece_mask(true), i) == (c.occ && c.gold), "C10: gold mask disagrees");
    assert!(model::bit(pb.player_piece_mask(false), i) == (c.occ && !c.gold), "C10: silver mask disagrees");
    assert!(model::bit(pb.all_pieces, i) == c.occ, "C10: all-pieces board disagrees");
    // bit i <-> file i mod 8, rank 8 - i div 8
    assert!(sq.as_bit_board() == 1u64 << (i as u32), "C10: bit of a square is not 1 << index");
    assert!(sq.index() == i as usize, "C10: index");
    assert!(sq.column_char() as u32 == 'a' as u32 + (i % 8) as u32, "C10: file letter is not index mod 8");
    assert!(sq.row() == 8 - i / 8, "C10: rank is not 8 - index div 8");
    vcover!(c.occ && !c.gold && c.ty == 3, "C10 witness: a silver horse on the probed square");
    std::mem::forget(gs);
    Verdict::Held
}
