//! C19: no public query and no offered action panics on a reachable state. The only assertions of
//! these harnesses are the engine's own: every Rust panic is an assertion for the model checker -
//! explicit `panic!`/`expect`/`unwrap`, slice and Vec index bounds, and (Kani compiles with
//! `-C overflow-checks=on`) arithmetic and shift overflow. CBMC's additional pointer-level and
//! unchecked-intrinsic instrumentation is switched off here (`mode = func`): with it these
//! harnesses did not finish within the cap, and undefined behaviour inside std's unsafe code is not
//! what the property is about (C16 keeps it on).
#![allow(unused_variables)]

use crate::model::{self, Pending};
use crate::scenario::*;
use crate::Verdict;
use arimaa_engine_step::Action;

/// Queries on an arbitrary invariant-satisfying play state. PART 0: the two action lists;
/// 1: result, move/pass availability, hash, earlier boards, accessors; 2: capture preview and
/// application of an arbitrary OFFERED action (entry k of the engine's own list); 3: pass.
pub fn c19_play<const STEP: usize, const KIND: u8, const PART: u8>(inp: &Inp) -> Verdict {
    let s = decode(inp, STEP, KIND, 2);
    vassume!(inv_rules(&s));
    set_focus!(s.a_sq);
    // (step-3 lists/queries run with the abstract move_piece: its own panic-freedom is part of c19_apply)
    let gs = build_state(&s);
    let mut wit = false;
    if PART == 0 {
        let l1 = gs.valid_actions();
        let l2 = gs.valid_actions_no_rep();
        wit = !l1.is_empty(); // C19 witness: actions offered
        std::mem::forget(l1);
        std::mem::forget(l2);
    } else if PART == 1 {
        let t = gs.is_terminal();
        let hm = gs.has_move(gs.piece_board());
        let cp = gs.can_pass(true) | gs.can_pass(false);
        let th = gs.transposition_hash();
        let side = gs.is_p1_turn_to_move();
        let mn = gs.move_number();
        let cs = gs.current_step();
        let pl = gs.is_play_phase();
        each!([0usize, 1, 2, 3], j, {
            if j <= STEP {
                let pb = gs.piece_board_for_step(j);
                let _ = pb.all_pieces;
            }
        });
        let pb = gs.piece_board();
        let _ = pb.trapped_piece_bits();
        let sq = arimaa_engine_step::Square::from_index(s.probe);
        let _ = pb.piece_type_at_square(&sq);
        wit = KIND == KIND_PUSH || t.is_some(); // C19 witness: a finished state (impossible while a push is pending)
    } else if PART == 2 {
        // an action the ENGINE offers (entry k of the rule-only list, k symbolic; under the focus
        // projection these are the entries from the symbolic focus square plus all pull entries)
        let l = gs.valid_actions_no_rep();
        #[cfg(kani)]
        {
            let k = (s.aux % 9) as usize;
            vassume!(k < l.len());
            let a = l[k];
            let pv = gs.trapped_animal_for_action(&a);
            let ns = gs.take_action(&a);
            let _ = ns.transposition_hash();
            wit = pv.is_some(); // C19 witness: an offered step that captures
            std::mem::forget(ns);
        }
        // natively the list is not projected: every offered action is previewed and applied
        #[cfg(not(kani))]
        for a in l.iter() {
            let pv = gs.trapped_animal_for_action(a);
            let ns = gs.take_action(a);
            let _ = ns.transposition_hash();
            wit |= pv.is_some();
        }
        std::mem::forget(l);
    } else {
        vassume!(model::pass_legal(s.step, s.pending));
        let ns = gs.take_action(&Action::Pass);
        let _ = gs.trapped_animal_for_action(&Action::Pass);
        let _ = ns.transposition_hash();
        wit = !s.gold; // C19 witness: silver passes
        std::mem::forget(ns);
    }
    vcover!(wit, "C19 witness: the part-specific interesting case is reachable (see source)");
    std::mem::forget(gs);
    Verdict::Held
}

/// Setup states: every query that is meaningful during setup (PART 0), every offered placement
/// and the queries on its result (PART 1).
pub fn c19_setup<const PART: u8>(inp: &Inp) -> Verdict {
    use crate::props::setup::build_setup_state;
    let s = decode(inp, 0, KIND_NONE, 0);
    let k = s.aux % 32;
    vassume!(model::setup_state_ok(&s.board, k));
    let gs = build_setup_state(&s.board, k, s.hash);
    let mut wit = false;
    if PART == 0 {
        let l1 = gs.valid_actions();
        let l2 = gs.valid_actions_no_rep();
        let t = gs.is_terminal();
        let hm = gs.has_move(gs.piece_board());
        let cp = gs.can_pass(true) | gs.can_pass(false);
        let th = gs.transposition_hash();
        let pl = gs.is_play_phase();
        let pbit = gs.piece_board().placement_bit();
        wit = k == 31; // C19 witness: last setup state
        std::mem::forget(l1);
        std::mem::forget(l2);
    } else {
        let ty = s.a_dir as u8 + if s.trapped { 4 } else { 0 };
        vassume!(ty < 6);
        let gold = model::setup_gold_to_move(k);
        let side = if gold { s.board.p1 } else { s.board.all() & !s.board.p1 };
        vassume!((s.board.t[ty as usize] & side).count_ones() < model::COMPLEMENT[ty as usize]);
        let a = Action::Place(piece_of(ty));
        let pv = gs.trapped_animal_for_action(&a);
        let ns = gs.take_action(&a);
        let _ = ns.transposition_hash();
        // (queries on the result: it is again a setup state or an INV play state - the other harnesses)
        wit = k == 31; // C19 witness: the placement that starts play
        std::mem::forget(ns);
    }
    vcover!(wit, "C19 witness: the part-specific interesting case is reachable (see source)");
    std::mem::forget(gs);
    Verdict::Held
}

/// The real square-listing loop on arbitrary masks with <= K bits (no shift overflow).
pub fn c19_mbts<const K: u32>(inp: &Inp) -> Verdict {
    let s = decode(inp, 0, KIND_NONE, 0);
    vassume!(s.board.p1.count_ones() <= K);
    let v = arimaa_engine_step::map_bit_board_to_squares(s.board.p1);
    vcover!(v.len() as u32 == K, "C19 witness: K squares");
    std::mem::forget(v);
    Verdict::Held
}

