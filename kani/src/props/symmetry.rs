//! C11: invariance under file mirroring and under colour swap with rank flip, by
//! self-composition: the real function is run on S and on sigma(S), no reference model.
//! The bit-trick implementation of sigma on boards is itself checked against the coordinate
//! maps of the model on a symbolic probe square.
#![allow(unused_variables)]

use crate::model::{self, Board, Pending};
use crate::props::actions::ent;
use crate::props::terminal::outcome_of;
use crate::scenario::*;
use crate::Verdict;

pub const MIRROR: u8 = 0;
pub const SWAP: u8 = 1;

fn mirror_word(w: u64) -> u64 {
    w.reverse_bits().swap_bytes()
}
fn flip_word(w: u64) -> u64 {
    w.swap_bytes()
}

pub fn sig_sq(sym: u8, i: u8) -> u8 {
    if sym == MIRROR {
        model::mirror_sq(i)
    } else {
        model::flip_sq(i)
    }
}
pub fn sig_dir(sym: u8, d: u8) -> u8 {
    if sym == MIRROR {
        model::mirror_dir(d)
    } else {
        model::flip_dir(d)
    }
}
pub fn sig_board(sym: u8, b: &Board) -> Board {
    if sym == MIRROR {
        Board {
            p1: mirror_word(b.p1),
            t: [
                mirror_word(b.t[0]),
                mirror_word(b.t[1]),
                mirror_word(b.t[2]),
                mirror_word(b.t[3]),
                mirror_word(b.t[4]),
                mirror_word(b.t[5]),
            ],
        }
    } else {
        let all = b.all();
        Board {
            p1: flip_word(all & !b.p1),
            t: [
                flip_word(b.t[0]),
                flip_word(b.t[1]),
                flip_word(b.t[2]),
                flip_word(b.t[3]),
                flip_word(b.t[4]),
                flip_word(b.t[5]),
            ],
        }
    }
}
pub fn sig_pending(sym: u8, p: Pending) -> Pending {
    match p {
        Pending::None => Pending::None,
        Pending::Pull(q, t) => Pending::Pull(sig_sq(sym, q), t),
        Pending::Push(q, t) => Pending::Push(sig_sq(sym, q), t),
    }
}
pub fn sig_scn(sym: u8, s: &Scn) -> Scn {
    let mut r = *s;
    r.board = sig_board(sym, &s.board);
    r.gold = if sym == SWAP { !s.gold } else { s.gold };
    r.pending = sig_pending(sym, s.pending);
    r.a_sq = sig_sq(sym, s.a_sq);
    r.a_dir = sig_dir(sym, s.a_dir);
    r.probe = sig_sq(sym, s.probe);
    r.prev = [sig_board(sym, &s.prev[0]), sig_board(sym, &s.prev[1]), sig_board(sym, &s.prev[2])];
    r
}

/// sigma on boards agrees with the coordinate maps (checked on a symbolic square).
fn sigma_is_sound(sym: u8, b: &Board, sb: &Board, probe: u8) -> bool {
    let c = b.cell(probe);
    let sc = sb.cell(sig_sq(sym, probe));
    c.occ == sc.occ && (!c.occ || (c.ty == sc.ty && (c.gold == sc.gold) == (sym == MIRROR)))
}

fn list_contains(list: &Vec<arimaa_engine_step::Action>, max: usize, kind: u8, i: u8, d: u8) -> bool {
    let mut found = false;
    let mut k = 0usize;
    while k < max {
        if k < list.len() {
            let (k2, sq, dir) = ent(&list[k]);
            found |= k2 == kind && (kind != 0 || (sq == i && dir == d));
        }
        k += 1;
    }
    found
}

/// Offered (rule-only) actions map to offered actions, under the focus projection.
pub fn c11_actions<const SYM: u8, const STEP: usize, const KIND: u8>(inp: &Inp) -> Verdict {
    let s = decode(inp, STEP, KIND, 0);
    vassume!(inv_rules(&s));
    let t = sig_scn(SYM, &s);
    assert!(sigma_is_sound(SYM, &s.board, &t.board, s.probe), "C11 harness: sigma on boards disagrees with the coordinate map");
    let f = s.a_sq;
    let g1 = build_state(&s);
    let g2 = build_state(&t);
    set_focus!(f);
    let l1 = g1.valid_actions_no_rep();
    set_focus!(t.a_sq);
    let l2 = g2.valid_actions_no_rep();
    #[cfg(kani)]
    let max = if KIND == KIND_PUSH { 4 } else { 9 };
    #[cfg(not(kani))]
    let max = 300;
    assert!(l1.len() <= max && l2.len() <= max, "CUT: action list longer than the unrolling width");
    assert!(l1.len() == l2.len(), "C11: a position and its image offer different numbers of actions");
    let mut k = 0usize;
    while k < max {
        if k < l1.len() {
            let (kind, sq, dir) = ent(&l1[k]);
            assert!(
                list_contains(&l2, max, kind, sig_sq(SYM, sq), sig_dir(SYM, dir)),
                "C11: an offered action has no offered image under the symmetry"
            );
        }
        k += 1;
    }
    vcover!(l1.len() >= 3, "C11 witness: at least three actions from the focus square");
    std::mem::forget(l1);
    std::mem::forget(l2);
    std::mem::forget(g1);
    std::mem::forget(g2);
    Verdict::Held
}

/// Results map to the correspondingly swapped results (turn start and mid-turn).
pub fn c11_terminal<const SYM: u8, const STEP: usize, const KIND: u8>(inp: &Inp) -> Verdict {
    let s = decode(inp, STEP, KIND, 0);
    vassume!(inv_rules(&s));
    // hashes are not symmetric (Zobrist values differ per square): keep repetition out of it
    // CONCRETE flag (not an assumption on a symbolic one): the engine then never enters the
    // hash-dependent 4th-step filter, which these projected runs cannot evaluate
    let mut s = s;
    if STEP == 3 {
        s.trapped = true;
    }
    let mut s = s;
    // with an empty history and the initial hash different from the current one only board rules remain
    s.hist_len = 0;
    let t = sig_scn(SYM, &s);
    let g1 = build_state(&s);
    let g2 = build_state(&t);
    if STEP > 0 {
        // can_pass compares hashes; require the same verdict on both sides by construction
        vassume!(g1.can_pass(true) == g2.can_pass(true));
    }
    let r1 = outcome_of(&g1.is_terminal());
    let r2 = outcome_of(&g2.is_terminal());
    let want = match r1 {
        None => None,
        Some(o) => {
            if SYM == SWAP {
                Some(if o == model::Outcome::GoldWin { model::Outcome::SilverWin } else { model::Outcome::GoldWin })
            } else {
                Some(o)
            }
        }
    };
    assert!(r2 == want, "C11: the image position reports a result that is not the image of the result");
    vcover_if!(KIND != KIND_PUSH, r1.is_some(), "C11 witness: a finished position");
    vcover!(r1.is_none() && s.board.all().count_ones() > 4, "C11 witness: an unfinished position");
    std::mem::forget(g1);
    std::mem::forget(g2);
    Verdict::Held
}

/// Applying the image action to the image state gives the image of the result: board, captures
/// (preview), pending status, side and step.
pub fn c11_take<const SYM: u8, const STEP: usize, const KIND: u8>(inp: &Inp) -> Verdict {
    let s = decode(inp, STEP, KIND, 0);
    vassume!(inv_rules(&s));
    vassume!(model::legal_step(&s.board, s.gold, s.step, s.pending, s.a_sq, s.a_dir));
    let t = sig_scn(SYM, &s);
    let g1 = build_state(&s);
    let g2 = build_state(&t);
    let a1 = action_of(s.a_sq, s.a_dir);
    let a2 = action_of(t.a_sq, t.a_dir);
    let p1 = g1.trapped_animal_for_action(&a1);
    let p2 = g2.trapped_animal_for_action(&a2);
    let n1 = g1.take_action(&a1);
    let n2 = g2.take_action(&a2);
    let b1 = board_of(n1.piece_board());
    let b2 = board_of(n2.piece_board());
    let want = sig_board(SYM, &b1);
    assert!(
        want.p1 == b2.p1
            && want.t[0] == b2.t[0]
            && want.t[1] == b2.t[1]
            && want.t[2] == b2.t[2]
            && want.t[3] == b2.t[3]
            && want.t[4] == b2.t[4]
            && want.t[5] == b2.t[5],
        "C11: the image action on the image state does not give the image board"
    );
    // the preview names ONE square; from a parsed position with several unsupported trap pieces
    // (no B3) one step removes several and the preview picks the lowest-index one, which is not
    // symmetric - solver-found, same restriction as C13
    if s.board.traps_supported() {
    match (p1, p2) {
        (None, None) => {}
        (Some((q1, t1, o1)), Some((q2, t2, o2))) => {
            assert!(q2.index() as u8 == sig_sq(SYM, q1.index() as u8), "C11: capture preview names a different square in the image");
            assert!(ty_of(t1) == ty_of(t2), "C11: capture preview names a different type in the image");
            assert!((o1 == o2) == (SYM == MIRROR), "C11: capture preview names the wrong owner in the image");
        }
        _ => assert!(false, "C11: a capture in one position is no capture in its image"),
    }
    }
    let pend1 = pending_of(n1.unwrap_play_phase().push_pull_state());
    let pend2 = pending_of(n2.unwrap_play_phase().push_pull_state());
    assert!(sig_pending(SYM, pend1) == pend2, "C11: pending status of the image differs");
    assert!(n1.current_step() == n2.current_step(), "C11: step counters differ");
    assert!(
        (n1.is_p1_turn_to_move() == n2.is_p1_turn_to_move()) == (SYM == MIRROR),
        "C11: side to move of the image is wrong"
    );
    vcover!(p1.is_some(), "C11 witness: a capture");
    std::mem::forget(n1);
    std::mem::forget(n2);
    std::mem::forget(g1);
    std::mem::forget(g2);
    Verdict::Held
}
