//! C05 / C06 / C07: repetition rules and the summary queries.
//!
//! History lengths: the engine only asks whether a probe hash occurs at least TWICE, so a history
//! of two arbitrary entries already reaches every behaviour (a longer history acts like the
//! two-entry one formed by two of its matching entries, or by non-matching ones). The heavy
//! relational harnesses use 2 entries, the cheap exact ones (can_pass, the 4th-step predicate) 6.
//!
//! Layers (DESIGN §5 C05):
//!  * `c05_can_pass`      - real `can_pass`, symbolic hashes and history: exact characterisation.
//!  * `c05_passing_like`  - the private predicate behind the 4th-step filter (hook H2), all boards:
//!                          it hashes exactly the board resulting from the action, as a start of
//!                          turn, for both sides, and compares as the rules say. `Zobrist::move_piece`
//!                          is abstracted by two arbitrary values (its meaning is C08's step lemma).
//!  * `c06_remove`        - `remove_passing_like_actions` deletes exactly the entries the predicate
//!                          flags, only on the 4th step and only without a capture; order kept.
//!  * `c07_has_non_passing` - the emptiness summary agrees with the predicate on arbitrary lists.
//!  * `c06_whole` / `c07_small` - whole functions, un-projected, boards with <= KP pieces, real tables.
//!  * `c07_summary`       - all boards, lowest-bit projection (exact for emptiness), steps 0-2 and
//!                          step 3 after a capture.
#![allow(unused_variables)]

use crate::model::{self, Pending};
use crate::props::actions::ent;
use crate::props::hashval;
use crate::props::terminal::outcome_of;
use crate::scenario::*;
use crate::Verdict;
use arimaa_engine_step::engine::verif_hooks as hooks;
use arimaa_engine_step::{Action, GameState, Zobrist};

fn count_hist(s: &Scn, h: u64) -> usize {
    let mut n = 0usize;
    each!([0usize, 1, 2, 3, 4, 5], k, {
        if k < s.hist_len && s.hist[k] == h {
            n += 1;
        }
    });
    n
}

/// Hash-level statement of "a pass here is withheld by the repetition rules".
fn pass_withheld(s: &Scn) -> bool {
    let unchanged = s.initial == (s.hash ^ hashval::step_delta(s.step));
    let third = count_hist(s, s.hash ^ hashval::side_value() ^ hashval::step_delta(s.step)) >= 2;
    unchanged || third
}

pub fn c05_can_pass<const STEP: usize, const KIND: u8>(inp: &Inp) -> Verdict {
    let s = decode(inp, STEP, KIND, HIST_MAX);
    vassume!(inv_rules(&s));
    let gs = build_state(&s);
    let rule = model::pass_legal(s.step, s.pending);
    assert!(gs.can_pass(false) == rule, "C07: can_pass(false) differs from 'a step was made and no push is pending'");
    assert!(
        gs.can_pass(true) == (rule && !pass_withheld(&s)),
        "C05: can_pass(true) is not 'legal pass whose result differs from the turn's start and has not occurred twice'"
    );
    vcover_if!(STEP >= 1 && KIND != KIND_PUSH, rule && s.initial == (s.hash ^ hashval::step_delta(s.step)), "C05 witness: pass would leave the position unchanged");
    vcover_if!(STEP >= 1 && KIND != KIND_PUSH, rule && !(s.initial == (s.hash ^ hashval::step_delta(s.step))) && pass_withheld(&s), "C05 witness: pass would be the third occurrence");
    vcover_if!(STEP >= 1 && KIND != KIND_PUSH, rule && !pass_withheld(&s) && s.hist_len == HIST_MAX, "C05 witness: pass allowed with a full history");
    std::mem::forget(gs);
    Verdict::Held
}

fn digest(b: &model::Board) -> u64 {
    b.p1 ^ b.t[0].rotate_left(7)
        ^ b.t[1].rotate_left(13)
        ^ b.t[2].rotate_left(19)
        ^ b.t[3].rotate_left(29)
        ^ b.t[4].rotate_left(37)
        ^ b.t[5].rotate_left(43)
}

/// Native replay of a counterexample found under the abstract `move_piece` (§3.6): the solver chose
/// the turn-initial hash and the history entries relative to the ABSTRACT values
/// `X_same ^ digest(board)` / `X_other ^ digest(board)`. The same equality pattern is
/// re-created with the REAL hashes of the same boards, so that the real predicate sees the
/// situation the solver described.
#[cfg(not(kani))]
fn concretize(s: &Scn, actions: &[Action]) -> Scn {
    let xs = xs_of(s);
    let xo = xo_of(s);
    let gs0 = build_state(s);
    let z = hooks::state_hash(&gs0);
    let mut map: Vec<(u64, u64)> = Vec::new();
    for a in actions {
        if let Action::Move(_, _) = a {
            // the board the engine itself would hash (bit shifts + trap removal), via the public API
            let mut probe = *s;
            probe.step = 0;
            probe.pending = Pending::None;
            let g = build_state(&probe);
            let nb = board_of(g.take_action(a).piece_board());
            let pb = piece_board_of(&nb);
            let dig = digest(&nb);
            map.push((xs ^ dig, z.move_piece(&gs0, pb.piece_board(), 0, s.gold).board_state_hash()));
            map.push((xo ^ dig, z.move_piece(&gs0, pb.piece_board(), 0, !s.gold).board_state_hash()));
        }
    }
    let tr = |v: u64| map.iter().find(|(k, _)| *k == v).map(|(_, r)| *r).unwrap_or(v);
    let mut r = *s;
    r.initial = tr(s.initial);
    for k in 0..HIST_MAX {
        r.hist[k] = tr(s.hist[k]);
    }
    r
}

/// (hash of the result as a start of turn with the same side, with the other side)
#[cfg(kani)]
fn start_hashes(s: &Scn, gs: &GameState, nb: &model::Board, xs: u64, xo: u64) -> (u64, u64) {
    (xs ^ digest(nb), xo ^ digest(nb))
}
#[cfg(not(kani))]
fn start_hashes(s: &Scn, gs: &GameState, nb: &model::Board, _xs: u64, _xo: u64) -> (u64, u64) {
    // natively the real Zobrist::move_piece (public) defines the two hashes
    let pb = piece_board_of(nb);
    let z = hooks::state_hash(gs);
    (
        z.move_piece(gs, pb.piece_board(), 0, s.gold).board_state_hash(),
        z.move_piece(gs, pb.piece_board(), 0, !s.gold).board_state_hash(),
    )
}

#[cfg(kani)]
fn arm_abstract(_xs: u64, _xo: u64, expect: Option<&model::Board>) {
    // only the harness that checks WHICH board is hashed writes statics (see stubs.rs)
    if let Some(b) = expect {
        unsafe {
            crate::stubs::EXPECT = [b.p1, b.t[0], b.t[1], b.t[2], b.t[3], b.t[4], b.t[5], b.all()];
            crate::stubs::EXPECT_ON = true;
        }
    }
}
/// The abstract values the stub derives from the state hash.
fn xs_of(s: &Scn) -> u64 {
    s.hash.rotate_left(17) ^ 0x9E37_79B9_7F4A_7C15
}
fn xo_of(s: &Scn) -> u64 {
    s.hash.rotate_left(41) ^ 0xC2B2_AE3D_27D4_EB4F
}
#[cfg(not(kani))]
fn arm_abstract(_xs: u64, _xo: u64, _expect: Option<&model::Board>) {}

/// Board after the step by the rule model, as words (per square from `after_step_cell`).
fn after_board_words(b: &model::Board, i: u8, t: u8) -> model::Board {
    // relocate the piece, then clear unsupported trap squares - per trap, by coordinates
    let src = 1u64 << (i as u32);
    let dst = 1u64 << (t as u32);
    let mut nb = *b;
    each!([0usize, 1, 2, 3, 4, 5], k, {
        if nb.t[k] & src != 0 {
            nb.t[k] = (nb.t[k] & !src) | dst;
        }
    });
    if nb.p1 & src != 0 {
        nb.p1 = (nb.p1 & !src) | dst;
    }
    each!([0usize, 1, 2, 3], k, {
        let q = model::TRAPS[k];
        if !model::after_step_cell(b, i, t, q).occ {
            let m = !(1u64 << (q as u32));
            nb.p1 &= m;
            each!([0usize, 1, 2, 3, 4, 5], j, {
                nb.t[j] &= m;
            });
        }
    });
    nb
}

pub fn c05_passing_like<const KIND: u8>(inp: &Inp) -> Verdict {
    let s = decode(inp, 3, KIND, HIST_MAX);
    vassume!(inv_rules(&s));
    vassume!(model::legal_step(&s.board, s.gold, s.step, s.pending, s.a_sq, s.a_dir));
    let t = model::neighbour(s.a_sq, s.a_dir);
    vassume!(t.is_some());
    let t = match t {
        Some(t) => t,
        None => 0,
    };
    let xs = xs_of(&s);
    let xo = xo_of(&s);
    let nb = after_board_words(&s.board, s.a_sq, t);
    arm_abstract(xs, xo, Some(&nb));
    let a = action_of(s.a_sq, s.a_dir);
    #[cfg(not(kani))]
    let s = concretize(&s, &[a]);
    let gs = build_state(&s);
    let got = hooks::is_passing_like_action(&gs, &a);
    let (h_same, h_other) = start_hashes(&s, &gs, &nb, xs, xo);
    let want = h_same == s.initial || count_hist(&s, h_other) >= 2;
    assert!(
        got == want,
        "C05: 4th-step predicate is not 'result equals the turn's starting position, or has been a start of turn twice with the other side to move'"
    );
    assert!(!hooks::is_passing_like_action(&gs, &Action::Pass), "C06: the step predicate flags a pass");
    vcover!(h_same == s.initial, "C05 witness: 4th step restores the turn's starting position");
    vcover!(h_same != s.initial && want, "C05 witness: 4th step would create a third occurrence");
    vcover!(!want && s.hist_len >= 2, "C05 witness: 4th step allowed");
    std::mem::forget(gs);
    Verdict::Held
}

fn sym_action(inp: &Inp, k: usize) -> Action {
    let b = inp[136 + 2 * k];
    if b & 128 == 128 {
        Action::Pass
    } else {
        action_of(b & 63, inp[137 + 2 * k] & 3)
    }
}

/// `remove_passing_like_actions` on an arbitrary list of two actions (steps or pass).
pub fn c06_remove<const STEP: usize, const KIND: u8>(inp: &Inp) -> Verdict {
    let s = decode(inp, STEP, KIND, 2);
    vassume!(inv_rules(&s));
    arm_abstract(xs_of(&s), xo_of(&s), None);
    let a = [sym_action(inp, 0), sym_action(inp, 1)];
    #[cfg(not(kani))]
    let s = concretize(&s, &a);
    let gs = build_state(&s);
    let active = STEP == 3 && !s.trapped;
    let keep = [
        !(active && hooks::is_passing_like_action(&gs, &a[0])),
        !(active && hooks::is_passing_like_action(&gs, &a[1])),
    ];
    let mut list: Vec<Action> = Vec::with_capacity(2);
    list.push(a[0]);
    list.push(a[1]);
    hooks::remove_passing_like_actions(&gs, &mut list);
    // expected: the kept entries in order
    let mut n = 0usize;
    each!([0usize, 1], k, {
        if keep[k] {
            assert!(n < list.len(), "C06: an action that breaks no repetition rule was withheld");
            assert!(ent(&list[n]) == ent(&a[k]), "C06: filtered list is not the rule-only list minus the withheld entries, in order");
            n += 1;
        }
    });
    assert!(list.len() == n, "C06: an action that should have been withheld is still offered");
    if STEP < 3 {
        assert!(n == 2, "C06: an action that does not end the turn was withheld");
    }
    vcover_if!(STEP == 3, active && !keep[1] && keep[0], "C06 witness: the second action is withheld, the first is not");
    vcover_if!(STEP == 3, active && !keep[0] && keep[1], "C06 witness: the first action is withheld, the second is not");
    vcover_if!(STEP == 3, !active && s.hist_len > 0, "C06 witness: a capture this turn disables the filter");
    std::mem::forget(list);
    std::mem::forget(gs);
    Verdict::Held
}

pub fn c07_has_non_passing<const STEP: usize, const KIND: u8>(inp: &Inp) -> Verdict {
    let s = decode(inp, STEP, KIND, 2);
    vassume!(inv_rules(&s));
    arm_abstract(xs_of(&s), xo_of(&s), None);
    let len = (inp[142] % 3) as usize;
    let a = [sym_action(inp, 0), sym_action(inp, 1)];
    #[cfg(not(kani))]
    let s = concretize(&s, &a);
    let gs = build_state(&s);
    // the engine only ever passes step lists
    vassume!(ent(&a[0]).0 == 0 && ent(&a[1]).0 == 0);
    let mut some_ok = false;
    each!([0usize, 1], k, {
        if k < len {
            some_ok |= !hooks::is_passing_like_action(&gs, &a[k]);
        }
    });
    let want = len > 0 && (STEP < 3 || s.trapped || some_ok);
    let mut list: Vec<Action> = Vec::with_capacity(2);
    each!([0usize, 1], k, {
        if k < len {
            list.push(a[k]);
        }
    });
    let got = hooks::has_non_passing_like_action(&gs, list);
    assert!(got == want, "C07: the has-action summary disagrees with the per-action repetition predicate");
    vcover_if!(STEP == 3, len == 2 && !want, "C07 witness: two candidate 4th steps, both withheld");
    vcover_if!(STEP == 3, len == 2 && want && !s.trapped && !some_ok == false, "C07 witness: one of two 4th steps is allowed");
    std::mem::forget(gs);
    Verdict::Held
}

fn list_has_pass(l: &Vec<Action>, max: usize) -> bool {
    let mut f = false;
    let mut k = 0usize;
    while k < max {
        if k < l.len() {
            f |= ent(&l[k]).0 == 1;
        }
        k += 1;
    }
    f
}

/// The summary queries against the lists, both computed by the real engine on the same state.
/// `part` selects one relation per harness (memory): 0 = result vs offered list, 1 = has_move vs
/// offered list, 2 = can_pass vs the two lists.
fn summaries<const PART: u8>(s: &Scn, gs: &GameState, max: usize) -> (bool, bool) {
    if PART == 2 {
        let va = gs.valid_actions();
        let nr = gs.valid_actions_no_rep();
        assert!(va.len() <= max && nr.len() <= max, "CUT: action list longer than the unrolling width");
        assert!(gs.can_pass(true) == list_has_pass(&va, max), "C07: can_pass(true) disagrees with the offered list");
        assert!(gs.can_pass(false) == list_has_pass(&nr, max), "C07: can_pass(false) disagrees with the rule-only list");
        let withheld = list_has_pass(&nr, max) && !list_has_pass(&va, max);
        let offered = list_has_pass(&va, max);
        std::mem::forget(va);
        std::mem::forget(nr);
        return (withheld, offered);
    }
    let va = gs.valid_actions();
    assert!(va.len() <= max, "CUT: action list longer than the unrolling width");
    if PART == 0 {
        let term = outcome_of(&gs.is_terminal());
        if s.step == 0 {
            if term.is_none() {
                assert!(!va.is_empty(), "C07: no result reported but no action offered");
            }
        } else {
            assert!(term.is_some() == va.is_empty(), "C07: mid-turn a result is reported iff no action is offered - violated");
            if let Some(o) = term {
                assert!(o == model::win_for(!s.gold), "C07: mid-turn result is not a loss for the player on move");
            }
        }
    } else {
        let hm = outcome_of(&gs.has_move(gs.piece_board()));
        assert!(hm.is_none() == !va.is_empty(), "C07: has_move disagrees with the offered list");
        if let Some(o) = hm {
            assert!(o == model::win_for(!s.gold), "C07: has_move reports a win for the player without moves");
        }
    }
    let r = (va.is_empty(), !va.is_empty());
    std::mem::forget(va);
    r
}

/// All boards, lowest-bit projection (exact for emptiness): steps 0-2, and step 3 after a capture.
pub fn c07_summary<const STEP: usize, const KIND: u8, const PART: u8>(inp: &Inp) -> Verdict {
    let s = decode(inp, STEP, KIND, 2);
    vassume!(inv_rules(&s));
    // CONCRETE flag (not an assumption on a symbolic one): the engine then never enters the
    // hash-dependent 4th-step filter, which these projected runs cannot evaluate
    let mut s = s;
    if STEP == 3 {
        s.trapped = true;
    }
    let gs = build_state(&s);
    #[cfg(kani)]
    let (w1, w2) = summaries::<PART>(&s, &gs, 14);
    #[cfg(not(kani))]
    let (w1, w2) = summaries::<PART>(&s, &gs, 300);
    // part 2: (pass withheld by repetition, pass offered); parts 0/1: (no action, some action)
    vcover_if!(KIND != KIND_PUSH && !(PART == 2 && STEP == 0), w1, "C07 witness: nothing offered (parts 0/1) / the pass is withheld by the repetition rules (part 2)");
    vcover_if!(!(PART == 2 && (STEP == 0 || KIND == KIND_PUSH)), w2, "C07 witness: something offered (parts 0/1) / the pass is offered (part 2)");
    std::mem::forget(gs);
    Verdict::Held
}

/// 4th step WITHOUT assuming a capture, all boards: lowest-bit projection for the generators and
/// the abstract `move_piece` for the filter. Under the projection the relations are those of the
/// projected lists: implied by the real relations when the engine is consistent (so no false
/// alarm), and violated by any structural drift between `has_move` and `valid_actions` (a
/// generator consulted under different conditions, a different guard) - the pull and push
/// completion generators are not projected at all. The un-projected claim at step 3 is the
/// hook-level `c07_has_non_passing` plus `c06_whole`.
pub fn c07_summary3<const KIND: u8, const PART: u8>(inp: &Inp) -> Verdict {
    let s = decode(inp, 3, KIND, 2);
    vassume!(inv_rules(&s));
    arm_abstract(xs_of(&s), xo_of(&s), None);
    #[cfg(not(kani))]
    let s = {
        let g0 = build_state(&s);
        let nr0 = g0.valid_actions_no_rep();
        concretize(&s, &nr0)
    };
    let gs = build_state(&s);
    #[cfg(kani)]
    let (w1, w2) = summaries::<PART>(&s, &gs, 14);
    #[cfg(not(kani))]
    let (w1, w2) = summaries::<PART>(&s, &gs, 300);
    vcover_if!(PART != 2 || KIND != KIND_PUSH, w1, "C07 witness (step 3): nothing offered / pass withheld");
    vcover_if!(PART != 2 || KIND != KIND_PUSH, w2, "C07 witness (step 3): something offered / pass offered");
    std::mem::forget(gs);
    Verdict::Held
}

/// Whole functions, un-projected, boards with <= KP pieces, real tables, symbolic history.
pub fn c07_small<const STEP: usize, const KIND: u8, const KP: u32, const PART: u8>(inp: &Inp) -> Verdict {
    let s = decode(inp, STEP, KIND, 2);
    vassume!(inv_rules(&s));
    vassume!(s.board.all().count_ones() <= KP);
    // the list relations do not depend on what the hash function is: run with the abstract
    // `move_piece` (two arbitrary values xor a board digest), natively with the real one after
    // re-creating the solver's equality pattern (`concretize`)
    arm_abstract(xs_of(&s), xo_of(&s), None);
    #[cfg(not(kani))]
    let s = {
        let g0 = build_state(&s);
        let nr0 = g0.valid_actions_no_rep();
        concretize(&s, &nr0)
    };
    let gs = build_state(&s);
    #[cfg(kani)]
    let (w1, w2) = summaries::<PART>(&s, &gs, (4 * KP + 1) as usize);
    #[cfg(not(kani))]
    let (w1, w2) = summaries::<PART>(&s, &gs, 300);
    vcover_if!(KIND != KIND_PUSH && !(PART == 2 && STEP == 0), w1, "C07 witness (small): nothing offered (parts 0/1) / the pass is withheld by the repetition rules (part 2)");
    vcover_if!(!(PART == 2 && (STEP == 0 || KIND == KIND_PUSH)), w2, "C07 witness (small): something offered (parts 0/1) / the pass is offered (part 2)");
    std::mem::forget(gs);
    Verdict::Held
}

/// C06 list relation on the whole functions (small boards): `valid_actions()` is
/// `valid_actions_no_rep()` minus exactly the withheld turn-ending entries, same order.
pub fn c06_whole<const STEP: usize, const KIND: u8, const KP: u32>(inp: &Inp) -> Verdict {
    let s = decode(inp, STEP, KIND, 2);
    vassume!(inv_rules(&s));
    vassume!(s.board.all().count_ones() <= KP);
    // the list relation does not depend on what the hash function is (see c07_small)
    arm_abstract(xs_of(&s), xo_of(&s), None);
    #[cfg(not(kani))]
    let s = {
        let g0 = build_state(&s);
        let nr0 = g0.valid_actions_no_rep();
        concretize(&s, &nr0)
    };
    let gs = build_state(&s);
    let va = gs.valid_actions();
    let nr = gs.valid_actions_no_rep();
    #[cfg(kani)]
    let max = (4 * KP + 1) as usize;
    #[cfg(not(kani))]
    let max = 300usize;
    assert!(nr.len() <= max, "CUT: action list longer than the unrolling width");
    let filter_steps = STEP == 3 && !s.trapped;
    let mut n = 0usize;
    let mut k = 0usize;
    let mut withheld_any = false;
    while k < max {
        if k < nr.len() {
            let e = ent(&nr[k]);
            let withheld = if e.0 == 1 {
                pass_withheld(&s)
            } else {
                filter_steps && hooks::is_passing_like_action(&gs, &nr[k])
            };
            withheld_any |= withheld;
            if !withheld {
                assert!(n < va.len(), "C06: an action that breaks no repetition rule is not offered");
                assert!(ent(&va[n]) == e, "C06: offered list is not the rule-only list minus the withheld actions, in order");
                n += 1;
            }
        }
        k += 1;
    }
    assert!(va.len() == n, "C06: the offered list contains an action the repetition rules withhold (or an extra one)");
    vcover_if!(STEP >= 1 && (KIND != KIND_PUSH || STEP == 3), withheld_any && n > 0, "C06 witness: something withheld, something offered");
    std::mem::forget(va);
    std::mem::forget(nr);
    std::mem::forget(gs);
    Verdict::Held
}
