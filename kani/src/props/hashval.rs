//! C17: changing one hashed feature changes the transposition hash. The feature values are read
//! from the real tables through the public `Zobrist` API with symbolic indices; by C08 the hash
//! of a reachable state is the XOR of independent feature values, so a single-feature change
//! XORs exactly one of the differences decided here.
#![allow(unused_variables)]

use crate::scenario::*;
use crate::Verdict;
use arimaa_engine_step::{PushPullState, Square, Zobrist};

pub fn base() -> u64 {
    Zobrist::initial().board_state_hash()
}

/// Value of (piece type, square, owner), via the public API.
pub fn piece_value(ty: u8, sq: u8, gold: bool) -> u64 {
    Zobrist::initial()
        .place_piece(piece_of(ty), Square::from_index(sq), gold, false, false)
        .board_state_hash()
        ^ base()
}
pub fn side_value() -> u64 {
    Zobrist::initial().pass(0).board_state_hash() ^ base()
}
/// STEP[0] ^ STEP[k]
pub fn step_delta(k: usize) -> u64 {
    Zobrist::initial().exclude_step(k).board_state_hash() ^ base()
}
pub fn pending_value(kind: u8, sq: u8, ty: u8) -> u64 {
    let z = Zobrist::initial();
    let p = if kind == KIND_PULL {
        PushPullState::PossiblePull(Square::from_index(sq), piece_of(ty))
    } else if kind == KIND_PUSH {
        PushPullState::MustCompletePush(Square::from_index(sq), piece_of(ty))
    } else {
        PushPullState::None
    };
    z.board_state_hash_with_push_pull_state(p) ^ base()
}

/// Two different (type, square, owner) triples have different values; none is zero.
pub fn c17_piece_values(inp: &Inp) -> Verdict {
    let t1 = inp[0] % 8;
    let t2 = inp[1] % 8;
    let s1 = inp[2] & 63;
    let s2 = inp[3] & 63;
    let g1 = inp[4] & 1 == 1;
    let g2 = inp[5] & 1 == 1;
    vassume!(t1 < 6 && t2 < 6);
    let v1 = piece_value(t1, s1, g1);
    let v2 = piece_value(t2, s2, g2);
    assert!(v1 != 0, "C17: a piece-square value is zero (placing/removing that piece would not change the hash)");
    if t1 != t2 || s1 != s2 || g1 != g2 {
        assert!(v1 != v2, "C17: two different piece-square features share a value");
    }
    vcover!(s1 == s2 && t1 != t2, "C17 witness: same square, different content");
    vcover!(s1 != s2 && t1 == t2 && g1 == g2, "C17 witness: same piece on a different square");
    Verdict::Held
}

pub fn c17_side_step(inp: &Inp) -> Verdict {
    assert!(side_value() != 0, "C17: side-to-move value is zero");
    let a = (inp[0] % 4) as usize;
    let b = (inp[1] % 4) as usize;
    if a != b {
        assert!(step_delta(a) != step_delta(b), "C17: two step numbers share a value");
    }
    vcover!(a == 3 && b == 0, "C17 witness: step 3 vs step 0");
    Verdict::Held
}

/// The 641 pending statuses (None, 5x64 pulls, 5x64 pushes) have pairwise different values.
pub fn c17_pending(inp: &Inp) -> Verdict {
    let k1 = inp[0] % 3;
    let k2 = inp[1] % 3;
    let s1 = inp[2] & 63;
    let s2 = inp[3] & 63;
    let t1 = inp[4] % 8;
    let t2 = inp[5] % 8;
    // valid statuses: pull by C..E (1..=5), push of R..M (0..=4)
    vassume!(if k1 == KIND_PULL { t1 >= 1 && t1 <= 5 } else { t1 <= 4 });
    vassume!(if k2 == KIND_PULL { t2 >= 1 && t2 <= 5 } else { t2 <= 4 });
    let v1 = pending_value(k1, s1, t1);
    let v2 = pending_value(k2, s2, t2);
    let same = k1 == k2 && (k1 == KIND_NONE || (s1 == s2 && t1 == t2));
    if !same {
        assert!(v1 != v2, "C17: two different push/pull statuses share a hash value");
    }
    vcover!(k1 == KIND_PULL && k2 == KIND_PUSH && s1 == s2 && t1 == t2, "C17 witness: pull vs push, same square and piece");
    vcover!(k1 == KIND_NONE && k2 == KIND_PUSH, "C17 witness: nothing pending vs push pending");
    Verdict::Held
}

/// Direct statement on real states: two boards with <= KP pieces differing in the content of
/// exactly one square hash differently (real from-scratch hash + real transposition_hash).
pub fn c17_direct<const KP: u32>(inp: &Inp) -> Verdict {
    use crate::model::Board;
    use arimaa_engine_step::{GameState, List, Phase, PlayPhase};
    let s = decode(inp, 0, KIND_NONE, 0);
    vassume!(s.board.well_formed());
    vassume!(s.board.all().count_ones() <= KP);
    // second board: same except square `probe`, whose content becomes (ty, gold2) or empty
    let i = s.probe;
    let bit = 1u64 << (i as u32);
    let ty = s.a_dir + if s.trapped { 4 } else { 0 };
    let make_empty = inp[62] & 1 == 1;
    let gold2 = inp[62] & 2 == 2;
    vassume!(ty < 6);
    let mut b2: Board = s.board;
    each!([0usize, 1, 2, 3, 4, 5], k, {
        b2.t[k] &= !bit;
    });
    b2.p1 &= !bit;
    if !make_empty {
        b2.t[ty as usize] |= bit;
        if gold2 {
            b2.p1 |= bit;
        }
    }
    vassume!(b2.all().count_ones() <= KP);
    let c1 = s.board.cell(i);
    let c2 = b2.cell(i);
    vassume!(c1 != c2);
    let mk = |b: &Board| {
        let pb = piece_board_of(b);
        let h = Zobrist::from_piece_board(pb.piece_board(), s.gold, 0);
        GameState::new(s.gold, 2, Phase::PlayPhase(PlayPhase::initial(h, List::new().append(h))), pb, h)
    };
    let g1 = mk(&s.board);
    let g2 = mk(&b2);
    assert!(g1.transposition_hash() != g2.transposition_hash(), "C17: states differing in one square hash equal");
    assert!(g1 != g2, "C17: states differing in one square compare equal");
    vcover!(c1.occ && c2.occ, "C17 witness: one piece replaced by another");
    vcover!(c1.occ != c2.occ, "C17 witness: piece vs empty");
    std::mem::forget(g1);
    std::mem::forget(g2);
    Verdict::Held
}
