//! take_action family: C02 (board effect), C03 (turn counters), C12 (pending status),
//! C13 (capture preview), C14 (earlier boards). One inductive step from an arbitrary
//! pre-state satisfying the invariant; step and pending kind are concrete per instance.
//!
//! None of these bodies looks at a hash, and the board/turn path of `take_action` never calls
//! `map_bit_board_to_squares`; the harnesses therefore run with the focus projection of that
//! function (the incremental hash becomes irrelevant garbage, the loop disappears).

#![allow(unused_variables)]
use crate::model::{self, Board, Pending};
use crate::scenario::*;
use crate::Verdict;
use arimaa_engine_step::{Action, GameState};

fn words_equal(b: &Board, pb: &arimaa_engine_step::PieceBoardState) -> bool {
    let g = board_of(pb);
    g.p1 == b.p1
        && g.t[0] == b.t[0]
        && g.t[1] == b.t[1]
        && g.t[2] == b.t[2]
        && g.t[3] == b.t[3]
        && g.t[4] == b.t[4]
        && g.t[5] == b.t[5]
        && pb.all_pieces == b.all()
}

/// Decodes the scenario, assumes the invariant and that (a_sq, a_dir) is a legal step by the
/// rule model, and builds the engine state. Assumptions come first, construction is
/// unconditional.
macro_rules! setup_move {
    ($inp:expr, $step:expr, $kind:expr) => {{
        let s = decode($inp, $step, $kind, 0);
        vassume!(inv_rules(&s));
        vassume!(model::legal_step(&s.board, s.gold, s.step, s.pending, s.a_sq, s.a_dir));
        let t = model::neighbour(s.a_sq, s.a_dir);
        vassume!(t.is_some());
        let t = match t {
            Some(t) => t,
            None => 0,
        };
        let gs = build_state(&s);
        (s, gs, action_of(s.a_sq, s.a_dir), t)
    }};
}

// ------------------------------------------------------------------------------------------
// C02
// ------------------------------------------------------------------------------------------

pub fn c02_move<const STEP: usize, const KIND: u8>(inp: &Inp) -> Verdict {
    let (s, gs, a, t) = setup_move!(inp, STEP, KIND);
    let ns = gs.take_action(&a);
    let pb = ns.piece_board();
    let nb = board_of(pb);

    // all eight views describe one position
    assert!(nb.well_formed(), "C02: type boards overlap or p1 outside all after a step");
    assert!(pb.all_pieces == nb.all(), "C02: all_pieces is not the union of the type boards");

    // square by square: exactly the model's content
    let want = model::after_step_cell(&s.board, s.a_sq, t, s.probe);
    let got = nb.cell(s.probe);
    assert!(got.occ == want.occ, "C02: occupancy of a square differs from the rule model");
    if want.occ {
        assert!(got.ty == want.ty, "C02: a piece changed type");
        assert!(got.gold == want.gold, "C02: a piece changed owner");
    }

    // "material never increases, no piece changes type or colour" is a consequence of the
    // square-by-square equality above: the model's after-step board is the old board with one
    // piece relocated and trap pieces deleted (popcount assertions are needlessly hard for SAT).
    let moved = s.board.cell(s.a_sq);
    vcover!(
        s.probe == t && !want.occ,
        "C02 witness: the moved piece is captured on arrival"
    );
    vcover!(
        s.probe != t && s.probe != s.a_sq && s.board.cell(s.probe).occ && !want.occ,
        "C02 witness: a piece is captured because its supporter stepped away"
    );
    vcover_if!(
        KIND != KIND_PUSH && (STEP < 3 || KIND == KIND_PULL),
        s.probe == t && want.occ && moved.gold != s.gold,
        "C02 witness: an enemy piece is displaced and survives"
    );
    std::mem::forget(ns);
    std::mem::forget(gs);
    Verdict::Held
}

pub fn c02_pass<const STEP: usize, const KIND: u8>(inp: &Inp) -> Verdict {
    let s = decode(inp, STEP, KIND, 0);
    vassume!(inv_rules(&s));
    vassume!(model::pass_legal(s.step, s.pending));
    let gs = build_state(&s);
    let ns = gs.take_action(&Action::Pass);
    assert!(words_equal(&s.board, ns.piece_board()), "C02: a pass changed the board");
    vcover!(s.board.all() != 0, "C02 witness: pass on a non-empty board");
    std::mem::forget(ns);
    std::mem::forget(gs);
    Verdict::Held
}

// ------------------------------------------------------------------------------------------
// C03
// ------------------------------------------------------------------------------------------

fn c03_check(s: &Scn, ns: &GameState, turn_ends: bool) {
    assert!(ns.is_play_phase(), "C03: left the play phase");
    let pp = ns.unwrap_play_phase();
    let nstep = pp.step();
    assert!(nstep <= 3, "C03: step counter out of 0..=3");
    if turn_ends {
        assert!(ns.is_p1_turn_to_move() != s.gold, "C03: side did not change at turn end");
        assert!(nstep == 0, "C03: step counter not reset at turn end");
        assert!(
            matches!(pp.push_pull_state(), arimaa_engine_step::PushPullState::None),
            "C03: something pending at turn start"
        );
        assert!(pp.previous_piece_boards().is_empty(), "C03: per-turn record not fresh");
        assert!(!pp.piece_trapped_this_turn(), "C03: capture flag not reset at turn start");
        let want = if s.gold { s.move_number } else { s.move_number + 1 };
        assert!(ns.move_number() == want, "C03: move number wrong at turn end");
    } else {
        assert!(ns.is_p1_turn_to_move() == s.gold, "C03: side changed mid-turn");
        assert!(nstep == s.step + 1, "C03: step counter did not advance by one");
        assert!(ns.move_number() == s.move_number, "C03: move number changed mid-turn");
    }
}

pub fn c03_move<const STEP: usize, const KIND: u8>(inp: &Inp) -> Verdict {
    let (s, gs, a, _t) = setup_move!(inp, STEP, KIND);
    // domain bound (DESIGN §8 D5): the move number cannot be incremented past usize::MAX
    vassume!(s.move_number < usize::MAX);
    let ns = gs.take_action(&a);
    c03_check(&s, &ns, STEP == 3);
    vcover!(!s.gold && s.move_number > 1000, "C03 witness: silver moves, large move number");
    std::mem::forget(ns);
    std::mem::forget(gs);
    Verdict::Held
}

pub fn c03_pass<const STEP: usize, const KIND: u8>(inp: &Inp) -> Verdict {
    let s = decode(inp, STEP, KIND, 0);
    vassume!(inv_rules(&s));
    vassume!(model::pass_legal(s.step, s.pending));
    vassume!(s.move_number < usize::MAX);
    let gs = build_state(&s);
    let ns = gs.take_action(&Action::Pass);
    c03_check(&s, &ns, true);
    vcover!(!s.gold, "C03 witness: silver passes");
    std::mem::forget(ns);
    std::mem::forget(gs);
    Verdict::Held
}

// ------------------------------------------------------------------------------------------
// C12
// ------------------------------------------------------------------------------------------

pub fn c12_move<const STEP: usize, const KIND: u8>(inp: &Inp) -> Verdict {
    let (s, gs, a, _t) = setup_move!(inp, STEP, KIND);
    let ns = gs.take_action(&a);
    let got = pending_of(ns.unwrap_play_phase().push_pull_state());
    let want = model::next_pending(&s.board, s.gold, s.step, s.pending, s.a_sq, s.a_dir);
    assert!(got == want, "C12: pending push/pull status does not describe the previous step");
    // T2 is preserved: the reported status is consistent with the new board; in particular a
    // pending push has at least one completion.
    let nb = board_of(ns.piece_board());
    let nstep = ns.unwrap_play_phase().step();
    // (needs B3 in the pre-state: from a parsed position whose only pusher stands unsupported on a
    // trap, the pusher is removed by the very step that starts the push - solver-found, DESIGN §8)
    if s.board.traps_supported() {
        assert!(
            model::pending_ok(&nb, ns.is_p1_turn_to_move(), nstep, got),
            "C12: pending status inconsistent with the new board (no completion / square occupied)"
        );
    }
    vcover_if!(KIND != KIND_PUSH && STEP < 3, matches!(want, Pending::Push(_, _)), "C12 witness: a push is started");
    vcover_if!(KIND != KIND_PUSH && STEP < 3, matches!(want, Pending::Pull(_, _)), "C12 witness: a possible pull is recorded");
    vcover_if!(
        KIND == KIND_PULL,
        matches!(want, Pending::None) && s.board.cell(s.a_sq).gold != s.gold,
        "C12 witness: an enemy step counted as pull completion"
    );
    std::mem::forget(ns);
    std::mem::forget(gs);
    Verdict::Held
}

pub fn c12_pass<const STEP: usize, const KIND: u8>(inp: &Inp) -> Verdict {
    let s = decode(inp, STEP, KIND, 0);
    vassume!(inv_rules(&s));
    vassume!(model::pass_legal(s.step, s.pending));
    let gs = build_state(&s);
    let ns = gs.take_action(&Action::Pass);
    let got = pending_of(ns.unwrap_play_phase().push_pull_state());
    assert!(got == Pending::None, "C12: something pending after a pass");
    vcover_if!(KIND == KIND_PULL, matches!(s.pending, Pending::Pull(_, _)), "C12 witness: pass with a possible pull open");
    std::mem::forget(ns);
    std::mem::forget(gs);
    Verdict::Held
}

/// While a push is pending the rule-only list is exactly the completions, and non-empty.
/// (This generator does not go through `map_bit_board_to_squares`: exact on all boards.)
pub fn c12_push_list<const STEP: usize>(inp: &Inp) -> Verdict {
    let s = decode(inp, STEP, KIND_PUSH, 0);
    vassume!(inv_rules(&s));
    let gs = build_state(&s);
    let list = gs.valid_actions_no_rep();
    let q = match s.pending {
        Pending::Push(q, _) => q,
        _ => return Verdict::Skipped,
    };
    // model: the completions are the steps from the 4 neighbours of q into q
    let mut want = 0usize;
    each!([0u8, 1u8, 2u8, 3u8], d, {
        // piece on n = q - d moves in direction d into q
        if let Some(n) = model::neighbour(q, (d + 2) % 4) {
            if model::classify_step(&s.board, s.gold, s.step, s.pending, n, d)
                == model::StepKind::CompletePush
            {
                want += 1;
            }
        }
    });
    assert!(list.len() == want, "C12: number of push completions differs from the rule model");
    assert!(list.len() >= 1, "C12: a push is pending but no completion is offered");
    each!([0usize, 1usize, 2usize, 3usize], k, {
        if k < list.len() {
            match list[k] {
                Action::Move(sq, dir) => {
                    assert!(
                        model::classify_step(
                            &s.board,
                            s.gold,
                            s.step,
                            s.pending,
                            sq.index() as u8,
                            d_of(dir)
                        ) == model::StepKind::CompletePush,
                        "C12: an offered action does not complete the pending push"
                    );
                    let mut j = 0;
                    while j < k {
                        if let Action::Move(sq2, dir2) = list[j] {
                            assert!(
                                !(sq2.index() == sq.index() && d_of(dir2) == d_of(dir)),
                                "C12: a completion is listed twice"
                            );
                        }
                        j += 1;
                    }
                }
                _ => assert!(false, "C12: a non-step action is offered while a push is pending"),
            }
        }
    });
    vcover!(list.len() >= 2, "C12 witness: two different pieces can complete the push");
    std::mem::forget(list);
    std::mem::forget(gs);
    Verdict::Held
}

// ------------------------------------------------------------------------------------------
// C13
// ------------------------------------------------------------------------------------------

pub fn c13_move<const STEP: usize, const KIND: u8>(inp: &Inp) -> Verdict {
    let (s, gs, a, t) = setup_move!(inp, STEP, KIND);
    // B3: reachable states have no unsupported trap piece (otherwise one step removes several)
    vassume!(s.board.traps_supported());
    let preview = gs.trapped_animal_for_action(&a);
    let ns = gs.take_action(&a);
    let nb = board_of(ns.piece_board());
    let before = s.board.all().count_ones();
    let after = nb.all().count_ones();
    assert!(before >= after && before - after <= 1, "C13: a single step removed more than one piece");
    let mut w_mover = false;
    let mut w_own = false;
    let mut w_enemy = false;
    match preview {
        None => assert!(before == after, "C13: preview says no capture but a piece was removed"),
        Some((sq, piece, is_gold)) => {
            assert!(before - after == 1, "C13: preview announces a capture but nothing was removed");
            let q = sq.index() as u8;
            let c = model::moved_cell(&s.board, s.a_sq, t, q);
            assert!(c.occ, "C13: preview names an empty square");
            assert!(!nb.cell(q).occ, "C13: the square named by the preview is still occupied");
            assert!(ty_of(piece) == c.ty, "C13: preview names the wrong piece type");
            assert!(is_gold == c.gold, "C13: preview names the wrong owner");
            assert!(model::is_trap(q), "C13: preview names a non-trap square");
            w_mover = q == t;
            w_own = q != t && c.gold == s.gold;
            w_enemy = q != t && c.gold != s.gold;
        }
    }
    vcover!(w_mover, "C13 witness: the mover is captured stepping in");
    vcover!(w_own, "C13 witness: own piece lost, supporter stepped away");
    vcover_if!(
        KIND != KIND_PUSH && (STEP < 3 || KIND == KIND_PULL),
        w_enemy,
        "C13 witness: enemy piece captured after its supporter was pushed/pulled away"
    );
    std::mem::forget(ns);
    std::mem::forget(gs);
    Verdict::Held
}

/// Pass and placements preview nothing.
pub fn c13_pass<const STEP: usize, const KIND: u8>(inp: &Inp) -> Verdict {
    let s = decode(inp, STEP, KIND, 0);
    vassume!(inv_rules(&s));
    let gs = build_state(&s);
    assert!(gs.trapped_animal_for_action(&Action::Pass).is_none(), "C13: pass previews a capture");
    vcover!(s.board.all() != 0, "C13 witness: non-empty board");
    std::mem::forget(gs);
    Verdict::Held
}

// ------------------------------------------------------------------------------------------
// C14
// ------------------------------------------------------------------------------------------

/// All eight words of two boards agree on the bit of square `q` (q is symbolic, so this is word
/// equality; comparing whole words of up to four boards at once ran CBMC out of memory).
fn bit_equal(b: &Board, pb: &arimaa_engine_step::PieceBoardState, q: u8) -> bool {
    let g = board_of(pb);
    model::bit(g.p1, q) == model::bit(b.p1, q)
        && model::bit(g.t[0], q) == model::bit(b.t[0], q)
        && model::bit(g.t[1], q) == model::bit(b.t[1], q)
        && model::bit(g.t[2], q) == model::bit(b.t[2], q)
        && model::bit(g.t[3], q) == model::bit(b.t[3], q)
        && model::bit(g.t[4], q) == model::bit(b.t[4], q)
        && model::bit(g.t[5], q) == model::bit(b.t[5], q)
        && model::bit(pb.all_pieces, q) == model::bit(b.all(), q)
}

pub fn c14_move<const STEP: usize, const KIND: u8>(inp: &Inp) -> Verdict {
    let (s, gs, a, _t) = setup_move!(inp, STEP, KIND);
    // one symbolic earlier step index j <= STEP and one symbolic square q (both universally
    // quantified by the solver): the board recorded for step j, before and after the action
    let j = (s.aux % 4) as usize;
    vassume!(j <= STEP);
    let q = s.probe;
    let want: Board = if j < STEP { s.prev[if j < 3 { j } else { 0 }] } else { s.board };
    // the index is dispatched to a concrete one (a symbolic index into the record is a byte-wise
    // array select for the model checker)
    each!([0usize, 1, 2, 3], k, {
        if k == j && k <= STEP {
            assert!(bit_equal(&want, gs.piece_board_for_step(k), q), "C14: the pre-state does not report the recorded board");
        }
    });
    let ns = gs.take_action(&a);
    let nstep = ns.current_step();
    if STEP < 3 {
        assert!(nstep == STEP + 1, "C14: step count");
        each!([0usize, 1, 2, 3], k, {
            if k == j && k <= STEP {
                assert!(
                    bit_equal(&want, ns.piece_board_for_step(k), q),
                    "C14: an earlier board of the turn changed (or the board before this step was not recorded)"
                );
            }
        });
    } else {
        assert!(nstep == 0, "C14: turn did not restart");
        assert!(ns.unwrap_play_phase().previous_piece_boards().is_empty(), "C14: stale boards at turn start");
    }
    let cur = board_of(ns.piece_board());
    assert!(
        bit_equal(&cur, ns.piece_board_for_step(nstep), q),
        "C14: board at the current step is not the current board"
    );
    vcover_if!(STEP >= 2, j + 2 <= STEP && s.board.all().count_ones() >= 3, "C14 witness: an entry at least two steps back, three pieces on the board");
    std::mem::forget(ns);
    std::mem::forget(gs);
    Verdict::Held
}

pub fn c14_pass<const STEP: usize, const KIND: u8>(inp: &Inp) -> Verdict {
    let s = decode(inp, STEP, KIND, 0);
    vassume!(inv_rules(&s));
    vassume!(model::pass_legal(s.step, s.pending));
    let gs = build_state(&s);
    let ns = gs.take_action(&Action::Pass);
    assert!(ns.current_step() == 0, "C14: pass did not restart the turn");
    assert!(ns.unwrap_play_phase().previous_piece_boards().is_empty(), "C14: stale boards after pass");
    assert!(bit_equal(&s.board, ns.piece_board_for_step(0), s.probe), "C14: step 0 after a pass is not the current board");
    vcover!(s.board.all() != 0, "C14 witness: non-empty board");
    std::mem::forget(ns);
    std::mem::forget(gs);
    Verdict::Held
}
