//! C08: the position hash depends only on board, side, step and pending push/pull.
//!
//! Inductive structure (H1: hash = F(board, side, step), F = INITIAL ^ side ^ STEP[step] ^ XOR of
//! the piece-square values): base `c08_place*` (setup) and `c08_from_scratch` (parsed positions),
//! step `c08_step*` / `c08_pass*`: hash' ^ hash = F(state') ^ F(state).
//!
//! Under Kani the 768-entry table is replaced by the indicator of one symbolic (square, type,
//! owner) triple T (stub of the private `piece_value`): the engine's delta then has bit 0 set iff
//! it XORed T's value an odd number of times, and the model says that happens iff the content of
//! T's square is T before xor after. T is universally quantified, so the engine XORs exactly the
//! values of the changed squares - for any table, in particular the real one. Natively (replay)
//! the same statement is evaluated with the real table.
#![allow(unused_variables)]

use crate::model::{self, Board, Cell};
use crate::props::hashval;
use crate::scenario::*;
use crate::Verdict;
use arimaa_engine_step::engine::verif_hooks as hooks;
use arimaa_engine_step::{Action, GameState, Zobrist};

#[cfg(kani)]
fn value_of(c: Cell, sq: u8, target: (u8, u8, bool)) -> u64 {
    if c.occ && sq == target.0 && c.ty == target.1 && c.gold == target.2 {
        1
    } else {
        0
    }
}
#[cfg(not(kani))]
fn value_of(c: Cell, sq: u8, _target: (u8, u8, bool)) -> u64 {
    if c.occ {
        hashval::piece_value(c.ty, sq, c.gold)
    } else {
        0
    }
}

/// XOR over all squares whose content differs between the two boards of
/// value(before) ^ value(after). Under Kani only the target's square can contribute.
fn board_delta<F1: Fn(u8) -> Cell, F2: Fn(u8) -> Cell>(before: F1, after: F2, target: (u8, u8, bool)) -> u64 {
    #[cfg(kani)]
    {
        value_of(before(target.0), target.0, target) ^ value_of(after(target.0), target.0, target)
    }
    #[cfg(not(kani))]
    {
        let mut d = 0u64;
        for sq in 0..64u8 {
            d ^= value_of(before(sq), sq, target) ^ value_of(after(sq), sq, target);
        }
        d
    }
}

#[cfg(kani)]
fn arm_target(t: (u8, u8, bool)) {
    crate::stubs::set_target(t.0, t.1, t.2);
}
#[cfg(not(kani))]
fn arm_target(_t: (u8, u8, bool)) {}

fn target_of(s: &Scn) -> (u8, u8, bool) {
    (s.probe, s.aux % 8, s.aux & 8 == 8)
}

fn hist_matches(ns: &GameState, want: &[u64], n: usize) -> bool {
    let l = ns.unwrap_play_phase().hash_history();
    if l.len() != n {
        return false;
    }
    // iter() yields newest first
    let mut ok = true;
    let mut k = 0usize;
    let mut it = l.iter();
    while k < HIST_MAX + 1 {
        if k < n {
            match it.next() {
                Some(z) => ok &= z.board_state_hash() == want[n - 1 - k],
                None => ok = false,
            }
        }
        k += 1;
    }
    ok
}

/// One step: hash, history and the turn's initial hash after `take_action(Move)`.
pub fn c08_step<const STEP: usize, const KIND: u8>(inp: &Inp) -> Verdict {
    let s = decode(inp, STEP, KIND, 4);
    vassume!(inv_rules(&s));
    // B3 (no unsupported trap piece) keeps every diff mask at <= 3 bits (unwinding bound)
    vassume!(s.board.traps_supported());
    vassume!(model::legal_step(&s.board, s.gold, s.step, s.pending, s.a_sq, s.a_dir));
    let t = model::neighbour(s.a_sq, s.a_dir);
    vassume!(t.is_some());
    let t = match t {
        Some(t) => t,
        None => 0,
    };
    let tgt = target_of(&s);
    vassume!(tgt.1 < 6);
    arm_target(tgt);
    let gs = build_state(&s);
    let ns = gs.take_action(&action_of(s.a_sq, s.a_dir));
    let got = hooks::state_hash(&ns).board_state_hash();

    let turn_ends = STEP == 3;
    let b = s.board;
    let delta = board_delta(|q| b.cell(q), |q| model::after_step_cell(&b, s.a_sq, t, q), tgt);
    let side = if turn_ends { hashval::side_value() } else { 0 };
    let nstep = if turn_ends { 0 } else { STEP + 1 };
    let steps = hashval::step_delta(STEP) ^ hashval::step_delta(nstep);
    let want = s.hash ^ delta ^ side ^ steps;
    assert!(got == want, "C08: hash after a step is not the old hash xor the values of exactly the changed features");

    // history bookkeeping (H2-H4)
    let nb = board_of(ns.piece_board());
    let captured_now = nb.all() != ((b.all() & !(1u64 << (s.a_sq as u32))) | (1u64 << (t as u32)));
    let pp = ns.unwrap_play_phase();
    let mut wh = [0u64; HIST_MAX + 1];
    let mut n = 0usize;
    if !captured_now {
        each!([0usize, 1, 2, 3, 4, 5], k, {
            if k < s.hist_len {
                wh[k] = s.hist[k];
            }
        });
        n = s.hist_len;
    }
    if turn_ends {
        wh[n] = got;
        n += 1;
        assert!(hooks::initial_hash_of_move(&ns).board_state_hash() == got, "C08: the new turn's initial hash is not its start-of-turn hash");
        assert!(!pp.piece_trapped_this_turn(), "C08: capture flag not reset");
    } else {
        assert!(
            hooks::initial_hash_of_move(&ns).board_state_hash() == s.initial,
            "C08: the turn's initial hash changed mid-turn"
        );
        assert!(pp.piece_trapped_this_turn() == (s.trapped || captured_now), "C08: capture-this-turn flag wrong");
    }
    assert!(hist_matches(&ns, &wh, n), "C08: recorded start-of-turn hashes wrong after a step");
    vcover!(captured_now && tgt.0 != s.a_sq && tgt.0 != t && value_of(b.cell(tgt.0), tgt.0, tgt) == 1, "C08 witness: the target triple is a piece captured because its supporter left");
    vcover!(captured_now && tgt.0 == t, "C08 witness: target square is where the mover is captured");
    vcover!(!captured_now && s.hist_len == 4, "C08 witness: four history entries carried over");
    std::mem::forget(ns);
    std::mem::forget(gs);
    Verdict::Held
}

pub fn c08_pass<const STEP: usize, const KIND: u8>(inp: &Inp) -> Verdict {
    let s = decode(inp, STEP, KIND, 4);
    vassume!(inv_rules(&s));
    vassume!(model::pass_legal(s.step, s.pending));
    let gs = build_state(&s);
    let ns = gs.take_action(&Action::Pass);
    let got = hooks::state_hash(&ns).board_state_hash();
    let want = s.hash ^ hashval::side_value() ^ hashval::step_delta(STEP);
    assert!(got == want, "C08: hash after a pass is not old hash ^ side ^ STEP[step] ^ STEP[0]");
    let mut wh = [0u64; HIST_MAX + 1];
    let mut n = 0usize;
    if !s.trapped {
        each!([0usize, 1, 2, 3, 4, 5], k, {
            if k < s.hist_len {
                wh[k] = s.hist[k];
            }
        });
        n = s.hist_len;
    }
    wh[n] = got;
    n += 1;
    assert!(hist_matches(&ns, &wh, n), "C08: recorded start-of-turn hashes wrong after a pass");
    assert!(hooks::initial_hash_of_move(&ns).board_state_hash() == got, "C08: initial hash after a pass");
    vcover!(s.trapped && s.hist_len == 4, "C08 witness: pass after a capture forgets the four entries");
    vcover!(!s.trapped && s.hist_len == 4, "C08 witness: pass keeps four entries");
    std::mem::forget(ns);
    std::mem::forget(gs);
    Verdict::Held
}

/// Setup: each placement XORs exactly the placed piece's value, plus the side value after
/// Gold's and Silver's last placement, plus STEP[0] when play starts (real tables).
pub fn c08_place(inp: &Inp) -> Verdict {
    use crate::props::setup::build_setup_state;
    let s = decode(inp, 0, KIND_NONE, 0);
    let k = s.aux % 32;
    vassume!(model::setup_state_ok(&s.board, k));
    let gold = model::setup_gold_to_move(k);
    let ty = s.a_dir as u8 + if s.trapped { 4 } else { 0 };
    vassume!(ty < 6);
    let gs = build_setup_state(&s.board, k, s.hash);
    let ns = gs.take_action(&Action::Place(piece_of(ty)));
    let got = hooks::state_hash(&ns).board_state_hash();
    let sq = model::setup_next_square(k);
    let mut want = s.hash ^ hashval::piece_value(ty, sq, gold);
    if k == 15 || k == 31 {
        want ^= hashval::side_value();
    }
    if k == 31 {
        // STEP[0]: exclude_step(0) is the identity, so take it from the from-scratch hash of the empty board
        let empty = Board { p1: 0, t: [0; 6] };
        let pb = piece_board_of(&empty);
        want ^= Zobrist::from_piece_board(pb.piece_board(), true, 0).board_state_hash() ^ hashval::base();
    }
    assert!(got == want, "C08: hash after a placement is not old hash ^ placed piece (^ side ^ STEP[0] at the boundaries)");
    assert!(ns.transposition_hash() == got, "C08: transposition hash of a setup / turn-start state is not its position hash");
    if k == 31 {
        let pp = ns.unwrap_play_phase();
        let h = pp.hash_history();
        assert!(h.len() == 1, "C08: play must start with a one-entry history");
        match h.head() {
            Some(z) => assert!(z.board_state_hash() == got, "C08: first history entry is not the start position's hash"),
            None => assert!(false, "C08: empty history at play start"),
        }
        assert!(hooks::initial_hash_of_move(&ns).board_state_hash() == got, "C08: initial hash at play start");
    }
    vcover!(k == 31, "C08 witness: last placement");
    vcover!(k == 15, "C08 witness: Gold's last placement");
    std::mem::forget(ns);
    std::mem::forget(gs);
    Verdict::Held
}

/// The engine's own from-scratch function (used by the position parser) computes F.
pub fn c08_from_scratch<const KP: u32>(inp: &Inp) -> Verdict {
    let s = decode(inp, 0, KIND_NONE, 0);
    vassume!(s.board.well_formed());
    vassume!(s.board.all().count_ones() <= KP);
    let step = (s.a_dir % 4) as usize;
    let tgt = target_of(&s);
    vassume!(tgt.1 < 6);
    arm_target(tgt);
    let pb = piece_board_of(&s.board);
    let got = Zobrist::from_piece_board(pb.piece_board(), s.gold, step).board_state_hash();
    let b = s.board;
    let pieces = board_delta(|_q| model::EMPTY, |q| b.cell(q), tgt);
    // STEP[step] = STEP[0] ^ step_delta(step); STEP[0] from the empty board
    let empty = Board { p1: 0, t: [0; 6] };
    let epb = piece_board_of(&empty);
    let step0 = Zobrist::from_piece_board(epb.piece_board(), true, 0).board_state_hash() ^ hashval::base();
    let want = hashval::base()
        ^ (if s.gold { 0 } else { hashval::side_value() })
        ^ step0
        ^ hashval::step_delta(step)
        ^ pieces;
    assert!(got == want, "C08: from-scratch hash is not INITIAL ^ side ^ STEP[step] ^ xor of the piece-square values");
    vcover!(b.all().count_ones() == KP && value_of(b.cell(tgt.0), tgt.0, tgt) == 1, "C08 witness: KP pieces, target present");
    Verdict::Held
}

/// transposition hash = position hash ^ value of the pending status; `==` and `Hash` read
/// nothing but the position hash.
pub fn c08_views<const STEP: usize, const KIND: u8>(inp: &Inp) -> Verdict {
    let s = decode(inp, STEP, KIND, 0);
    vassume!(inv_rules(&s));
    let gs = build_state(&s);
    let (k, sq, ty) = match s.pending {
        model::Pending::None => (KIND_NONE, 0, 0),
        model::Pending::Pull(q, t) => (KIND_PULL, q, t),
        model::Pending::Push(q, t) => (KIND_PUSH, q, t),
    };
    assert!(
        gs.transposition_hash() == s.hash ^ hashval::pending_value(k, sq, ty),
        "C08: transposition hash is not position hash ^ pending push/pull value"
    );
    // a second state with arbitrary other content and hash h2
    let mut s2 = s;
    s2.board = s.prev[0];
    s2.gold = s.aux & 1 == 1;
    s2.hash = s.initial;
    s2.pending = model::Pending::None;
    s2.move_number = s.hist[0] as usize;
    let g2 = build_state(&s2);
    assert!((gs == g2) == (s.hash == s2.hash), "C08: state equality reads something other than the position hash");
    struct Rec(u64, u32);
    impl std::hash::Hasher for Rec {
        fn finish(&self) -> u64 {
            self.0
        }
        fn write(&mut self, _b: &[u8]) {
            self.1 += 100;
        }
        fn write_u64(&mut self, v: u64) {
            self.0 = v;
            self.1 += 1;
        }
    }
    let mut r = Rec(0, 0);
    std::hash::Hash::hash(&gs, &mut r);
    assert!(r.0 == s.hash && r.1 == 1, "C08: Hash feeds something other than the position hash");
    vcover!(s.hash == s2.hash && s.board.all() != s2.board.all(), "C08 witness: equal hashes, different boards (collision case is by design equal)");
    std::mem::forget(gs);
    std::mem::forget(g2);
    Verdict::Held
}
