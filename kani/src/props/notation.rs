//! C16: notation round trips; malformed text is rejected without panic. Parsers are run on
//! arbitrary byte strings up to a length bound (filtered by `str::from_utf8`, so multi-byte
//! characters are included) with all of Kani's checks on.
#![allow(unused_variables)]

use crate::model;
use crate::scenario::*;
use crate::Verdict;
use arimaa_engine_step::{Action, Direction, Piece, Square};

const DIRCH: [u8; 4] = [b'n', b'e', b's', b'w'];
const PIECECH: [u8; 6] = [b'r', b'c', b'd', b'h', b'm', b'e'];

/// Printed form of a square by coordinates: file letter a-h, rank digit 1-8.
fn sq_text(i: u8) -> [u8; 2] {
    [b'a' + model::file(i), b'0' + (8 - model::row(i))]
}

fn lower(b: u8) -> u8 {
    if b >= b'A' && b <= b'Z' {
        b + 32
    } else {
        b
    }
}

pub fn c16_square_parse(inp: &Inp) -> Verdict {
    let len = (inp[0] % 4) as usize; // 0..=3 bytes
    let bytes = [inp[1], inp[2], inp[3]];
    // witnesses first: with the error-construction cut every Err path ends inside the parser
    vcover!(len == 2 && bytes[0] == b'h' && bytes[1] == b'8', "C16 witness: \"h8\"");
    vcover!(len == 3 && bytes[0] >= 0xE0, "C16 witness: a three-byte UTF-8 character");
    if let Ok(st) = std::str::from_utf8(&bytes[..len]) {
        match st.parse::<Square>() {
            Ok(sq) => {
                let i = sq.index();
                assert!(i < 64, "C16: parsed square out of range");
                let t = sq_text(i as u8);
                assert!(
                    len == 2 && bytes[0] == t[0] && bytes[1] == t[1],
                    "C16: a string that is not the printed form of a square parsed successfully"
                );
            }
            Err(e) => std::mem::forget(e),
        }
    }
    // completeness: the printed form of every square parses to that square
    let i = inp[5] & 63;
    let t = sq_text(i);
    if len == 2 && bytes[0] == t[0] && bytes[1] == t[1] {
        match std::str::from_utf8(&bytes[..2]) {
            Ok(st) => match st.parse::<Square>() {
                Ok(sq) => assert!(sq.index() == i as usize, "C16: the printed form of a square parses to a different square"),
                Err(e) => {
                    std::mem::forget(e);
                    assert!(false, "C16: the printed form of a square does not parse");
                }
            },
            Err(_) => assert!(false, "C16: printed form is not UTF-8"),
        }
    }
    Verdict::Held
}

pub fn c16_piece_parse(inp: &Inp) -> Verdict {
    let len = (inp[0] % 4) as usize;
    let bytes = [inp[1], inp[2], inp[3]];
    // witnesses first: with the error-construction cut every Err path ends inside the parser
    vcover!(len == 1 && bytes[0] == b'M', "C16 witness: upper-case camel");
    if let Ok(st) = std::str::from_utf8(&bytes[..len]) {
        match st.parse::<Piece>() {
            Ok(p) => {
                assert!(
                    len == 1 && lower(bytes[0]) == PIECECH[ty_of(p) as usize],
                    "C16: a string that is not a piece letter parsed as a piece"
                );
            }
            Err(e) => std::mem::forget(e),
        }
    }
    let ty = inp[5] % 8;
    if ty < 6 && len == 1 && lower(bytes[0]) == PIECECH[ty as usize] && (bytes[0] == PIECECH[ty as usize] || bytes[0] + 32 == PIECECH[ty as usize]) {
        match std::str::from_utf8(&bytes[..1]) {
            Ok(st) => match st.parse::<Piece>() {
                Ok(p) => assert!(ty_of(p) == ty, "C16: a piece letter parses to a different piece"),
                Err(e) => {
                    std::mem::forget(e);
                    assert!(false, "C16: a piece letter does not parse");
                }
            },
            Err(_) => assert!(false, "C16: piece letter is not UTF-8"),
        }
    }
    Verdict::Held
}

pub fn c16_dir_parse(inp: &Inp) -> Verdict {
    let len = (inp[0] % 4) as usize;
    let bytes = [inp[1], inp[2], inp[3]];
    // witnesses first: with the error-construction cut every Err path ends inside the parser
    vcover!(len == 1 && bytes[0] == b'w', "C16 witness: west");
    if let Ok(st) = std::str::from_utf8(&bytes[..len]) {
        match st.parse::<Direction>() {
            Ok(d) => {
                assert!(
                    len == 1 && bytes[0] == DIRCH[d_of(d) as usize],
                    "C16: a string that is not a direction letter parsed as a direction"
                );
            }
            Err(e) => std::mem::forget(e),
        }
    }
    let d = inp[5] & 3;
    if len == 1 && bytes[0] == DIRCH[d as usize] {
        match std::str::from_utf8(&bytes[..1]) {
            Ok(st) => match st.parse::<Direction>() {
                Ok(d2) => assert!(d_of(d2) == d, "C16: a direction letter parses to a different direction"),
                Err(e) => {
                    std::mem::forget(e);
                    assert!(false, "C16: a direction letter does not parse");
                }
            },
            Err(_) => assert!(false, "C16: direction letter is not UTF-8"),
        }
    }
    Verdict::Held
}

/// Action parser on every UTF-8 string of `LEN` bytes (LEN concrete per instance: 0..=4).
pub fn c16_action_parse<const LEN: usize>(inp: &Inp) -> Verdict {
    let bytes = [inp[1], inp[2], inp[3], inp[4]];
    // witnesses first: with the error-construction cut every Err path ends inside the parser
    vcover_if!(LEN == 3, bytes[0] == b'a' && bytes[1] == 0xC3, "C16 witness: 'a' followed by a two-byte character (2 characters, 3 bytes)");
    vcover_if!(LEN == 3, bytes[0] == b'c' && bytes[1] == b'3' && bytes[2] == b'n', "C16 witness: \"c3n\"");
    vcover_if!(LEN == 4, bytes[0] == b'a' && bytes[1] == 0xC3 && bytes[3] == b'n', "C16 witness: 'a', a two-byte character, 'n' (3 characters, 4 bytes)");
    if let Ok(st) = std::str::from_utf8(&bytes[..LEN]) {
        match st.parse::<Action>() {
            Ok(a) => match a {
                Action::Pass => assert!(LEN == 1 && bytes[0] == b'p', "C16: non-\"p\" parsed as pass"),
                Action::Place(p) => assert!(
                    LEN == 1 && lower(bytes[0]) == PIECECH[ty_of(p) as usize],
                    "C16: a string that is not a piece letter parsed as a placement"
                ),
                Action::Move(sq, d) => {
                    let t = sq_text(sq.index() as u8);
                    assert!(
                        LEN == 3 && bytes[0] == t[0] && bytes[1] == t[1] && bytes[2] == DIRCH[d_of(d) as usize],
                        "C16: a string that is not the printed form of a step parsed as that step"
                    );
                }
            },
            Err(e) => std::mem::forget(e),
        }
    }
    // completeness: the printed form of every action parses to that action
    let kind = inp[5] % 3;
    let i = inp[6] & 63;
    let d = inp[7] & 3;
    let ty = inp[8] % 8;
    let t = sq_text(i);
    let is_text = if kind == 0 {
        LEN == 3 && bytes[0] == t[0] && bytes[1] == t[1] && bytes[2] == DIRCH[d as usize]
    } else if kind == 1 {
        LEN == 1 && bytes[0] == b'p'
    } else {
        LEN == 1 && ty < 6 && bytes[0] == PIECECH[(ty % 6) as usize]
    };
    if is_text {
        match std::str::from_utf8(&bytes[..LEN]) {
            Ok(st) => match st.parse::<Action>() {
                Ok(a) => {
                    let ok = match a {
                        Action::Move(sq, dd) => kind == 0 && sq.index() == i as usize && d_of(dd) == d,
                        Action::Pass => kind == 1,
                        Action::Place(p) => kind == 2 && ty_of(p) == ty,
                    };
                    assert!(ok, "C16: the printed form of an action parses to a different action");
                }
                Err(e) => {
                    std::mem::forget(e);
                    assert!(false, "C16: the printed form of an action does not parse");
                }
            },
            Err(_) => assert!(false, "C16: printed form is not UTF-8"),
        }
    }
    Verdict::Held
}

/// Conversions between square, index, bit and (file, rank) are mutually inverse, all 64.
pub fn c16_square_conv(inp: &Inp) -> Verdict {
    let i = inp[0] & 63;
    let sq = Square::from_index(i);
    assert!(sq.index() == i as usize, "C16: from_index/index");
    let bit = sq.as_bit_board();
    assert!(bit == 1u64 << (i as u32), "C16: single-bit board is not 1 << index");
    assert!(Square::from_bit_board(bit).index() == i as usize, "C16: from_bit_board is not the inverse of as_bit_board");
    let col = sq.column_char();
    let row = sq.row();
    let t = sq_text(i);
    assert!(col as u32 == t[0] as u32, "C16: file letter inconsistent with the index");
    assert!(row == t[1] - b'0', "C16: rank inconsistent with the index");
    assert!(Square::new(col, row as usize).index() == i as usize, "C16: Square::new is not the inverse of (file, rank)");
    vcover!(i == 63, "C16 witness: h1");
    Verdict::Held
}

/// Printed forms (through core::fmt): squares print as file a-h and rank 1-8, pieces and
/// directions as their letter, actions as square+direction / "p" / piece letter. Together with
/// the completeness halves of the parse harnesses this is the round trip.
pub fn c16_print_square(inp: &Inp) -> Verdict {
    let i = inp[0] & 63;
    let txt = Square::from_index(i).to_string();
    let t = sq_text(i);
    let b = txt.as_bytes();
    assert!(b.len() == 2 && b[0] == t[0] && b[1] == t[1], "C16: a square does not print as file a-h and rank 1-8");
    vcover!(i == 0, "C16 witness: a8");
    std::mem::forget(txt);
    Verdict::Held
}

pub fn c16_print_piece_dir(inp: &Inp) -> Verdict {
    let d = inp[2] & 3;
    let ty = inp[3] % 8;
    vassume!(ty < 6);
    let ptxt = piece_of(ty).to_string();
    assert!(ptxt.as_bytes().len() == 1 && ptxt.as_bytes()[0] == PIECECH[ty as usize], "C16: piece letter");
    let dtxt = dir_of(d).to_string();
    assert!(dtxt.as_bytes().len() == 1 && dtxt.as_bytes()[0] == DIRCH[d as usize], "C16: direction letter");
    vcover!(ty == 5 && d == 2, "C16 witness: elephant, south");
    std::mem::forget(ptxt);
    std::mem::forget(dtxt);
    Verdict::Held
}

pub fn c16_print_action<const KINDSEL: u8, const D: u8>(inp: &Inp) -> Verdict {
    let i = inp[1] & 63;
    // the direction is concrete per instance (format! with two symbolic arguments did not finish)
    let d = D;
    let ty = inp[3] % 8;
    vassume!(ty < 6);
    let a = if KINDSEL == 0 {
        Action::Move(Square::from_index(i), dir_of(d))
    } else if KINDSEL == 1 {
        Action::Pass
    } else {
        Action::Place(piece_of(ty))
    };
    let txt = a.to_string();
    let b = txt.as_bytes();
    let t = sq_text(i);
    if KINDSEL == 0 {
        assert!(b.len() == 3 && b[0] == t[0] && b[1] == t[1] && b[2] == DIRCH[d as usize], "C16: a step does not print as square + direction letter");
    } else if KINDSEL == 1 {
        assert!(b.len() == 1 && b[0] == b'p', "C16: pass does not print as \"p\"");
    } else {
        assert!(b.len() == 1 && b[0] == PIECECH[ty as usize], "C16: a placement does not print as its piece letter");
    }
    vcover_if!(KINDSEL == 0, i == 63, "C16 witness: a step from h1");
    vcover_if!(KINDSEL == 2, ty == 4, "C16 witness: place camel");
    std::mem::forget(txt);
    Verdict::Held
}
