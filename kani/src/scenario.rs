//! decode(bytes) -> Scenario. Every harness draws exactly one `Inp` and derives everything
//! from it through this pure function, so a solver counterexample is one byte vector that the
//! native replayer can decode identically (single-input discipline, DESIGN.md §2).
#![allow(dead_code)]

use crate::model::{self, Board, Pending};
use arimaa_engine_step::{
    Action, Direction, GameState, List, Phase, Piece, PieceBoard, PieceBoardState, PlayPhase,
    PushPullState, Square, Zobrist,
};

pub const INP_LEN: usize = 320;
pub type Inp = [u8; INP_LEN];

/// Maximum number of history entries a scenario can carry.
pub const HIST_MAX: usize = 6;

pub const KIND_NONE: u8 = 0;
pub const KIND_PULL: u8 = 1;
pub const KIND_PUSH: u8 = 2;

#[derive(Clone, Copy, Debug)]
pub struct Scn {
    pub board: Board,
    pub gold: bool,
    pub trapped: bool,
    pub step: usize,
    pub pending: Pending,
    pub a_sq: u8,
    pub a_dir: u8,
    pub probe: u8,
    pub aux: u8,
    pub move_number: usize,
    pub hash: u64,
    pub initial: u64,
    pub hist_len: usize,
    pub hist: [u64; HIST_MAX],
    pub prev: [Board; 3],
}

fn rd64(inp: &Inp, off: usize) -> u64 {
    u64::from_le_bytes([
        inp[off],
        inp[off + 1],
        inp[off + 2],
        inp[off + 3],
        inp[off + 4],
        inp[off + 5],
        inp[off + 6],
        inp[off + 7],
    ])
}

fn rd_board(inp: &Inp, off: usize) -> Board {
    Board {
        p1: rd64(inp, off),
        t: [
            rd64(inp, off + 8),
            rd64(inp, off + 16),
            rd64(inp, off + 24),
            rd64(inp, off + 32),
            rd64(inp, off + 40),
            rd64(inp, off + 48),
        ],
    }
}

/// Layout: 0..56 board | 56 flags | 57 pend sq | 58 pend piece | 59 action sq | 60 action dir
/// | 61 probe sq | 62 aux | 63 hist_len | 64..72 move_number | 72..80 hash | 80..88 initial
/// | 88..136 history (6) | 136..304 previous boards (3 x 56).
/// `step` and the pending *kind* are concrete per harness instance.
pub fn decode(inp: &Inp, step: usize, kind: u8, hist_cap: usize) -> Scn {
    let board = rd_board(inp, 0);
    let flags = inp[56];
    let psq = inp[57] & 63;
    let ppc = inp[58] & 7;
    let pending = if kind == KIND_PULL {
        Pending::Pull(psq, ppc)
    } else if kind == KIND_PUSH {
        Pending::Push(psq, ppc)
    } else {
        Pending::None
    };
    let hist = [
        rd64(inp, 88),
        rd64(inp, 96),
        rd64(inp, 104),
        rd64(inp, 112),
        rd64(inp, 120),
        rd64(inp, 128),
    ];
    // The history length is CONCRETE per harness instance (= hist_cap): with a symbolic length the
    // Arc reference counts become symbolic and every List drop forks into drop_slow recursion.
    // Nothing is lost: the engine only counts entries equal to a probe hash, so a shorter history
    // behaves exactly like this one with the extra entries chosen different from every probe.
    let hl = if hist_cap > HIST_MAX { HIST_MAX } else { hist_cap };
    Scn {
        board,
        gold: flags & 1 == 1,
        trapped: flags & 2 == 2,
        step,
        pending,
        a_sq: inp[59] & 63,
        a_dir: inp[60] & 3,
        probe: inp[61] & 63,
        aux: inp[62],
        move_number: rd64(inp, 64) as usize,
        hash: rd64(inp, 72),
        initial: rd64(inp, 80),
        hist_len: hl,
        hist,
        prev: [rd_board(inp, 136), rd_board(inp, 192), rd_board(inp, 248)],
    }
}

// ---- conversions between model values and engine values ------------------------------------

pub fn piece_of(ty: u8) -> Piece {
    match ty {
        0 => Piece::Rabbit,
        1 => Piece::Cat,
        2 => Piece::Dog,
        3 => Piece::Horse,
        4 => Piece::Camel,
        _ => Piece::Elephant,
    }
}

pub fn ty_of(p: Piece) -> u8 {
    match p {
        Piece::Rabbit => 0,
        Piece::Cat => 1,
        Piece::Dog => 2,
        Piece::Horse => 3,
        Piece::Camel => 4,
        Piece::Elephant => 5,
    }
}

pub fn dir_of(d: u8) -> Direction {
    match d {
        0 => Direction::Up,
        1 => Direction::Right,
        2 => Direction::Down,
        _ => Direction::Left,
    }
}

pub fn d_of(d: Direction) -> u8 {
    match d {
        Direction::Up => 0,
        Direction::Right => 1,
        Direction::Down => 2,
        Direction::Left => 3,
    }
}

pub fn pps_of(p: Pending) -> PushPullState {
    match p {
        Pending::None => PushPullState::None,
        Pending::Pull(q, t) => PushPullState::PossiblePull(Square::from_index(q), piece_of(t)),
        Pending::Push(q, t) => PushPullState::MustCompletePush(Square::from_index(q), piece_of(t)),
    }
}

pub fn pending_of(p: PushPullState) -> Pending {
    match p {
        PushPullState::None => Pending::None,
        PushPullState::PossiblePull(q, t) => Pending::Pull(q.index() as u8, ty_of(t)),
        PushPullState::MustCompletePush(q, t) => Pending::Push(q.index() as u8, ty_of(t)),
    }
}

pub fn piece_board_of(b: &Board) -> PieceBoard {
    PieceBoard::new(b.p1, b.t[5], b.t[4], b.t[3], b.t[2], b.t[1], b.t[0])
}

/// Reads the engine's raw `pub` fields (no engine accessor involved).
pub fn board_of(pb: &PieceBoardState) -> Board {
    Board {
        p1: pb.p1_pieces,
        t: [pb.rabbits, pb.cats, pb.dogs, pb.horses, pb.camels, pb.elephants],
    }
}

pub fn action_of(i: u8, d: u8) -> Action {
    Action::Move(Square::from_index(i), dir_of(d))
}

/// Builds the engine state through the public constructors (+ hook H1 for raw hashes).
/// History entries are appended oldest first, so `hist[hist_len-1]` is the newest.
pub fn build_state(s: &Scn) -> GameState {
    let mut list: List<Zobrist> = List::new();
    each!([0usize, 1, 2, 3, 4, 5], k, {
        if k < s.hist_len {
            let longer = list.append(Zobrist::from_raw(s.hist[k]));
            // the shorter list is leaked, not dropped (keeps drop glue out of the harness)
            std::mem::forget(std::mem::replace(&mut list, longer));
        }
    });
    let mut prev: Vec<PieceBoard> = Vec::with_capacity(3);
    each!([0usize, 1, 2], j, {
        if j < s.step {
            prev.push(piece_board_of(&s.prev[j]));
        }
    });
    let play = PlayPhase::new(
        Zobrist::from_raw(s.initial),
        list,
        prev,
        pps_of(s.pending),
        s.trapped,
    );
    GameState::new(
        s.gold,
        s.move_number,
        Phase::PlayPhase(play),
        piece_board_of(&s.board),
        Zobrist::from_raw(s.hash),
    )
}

/// B1 + T2 (+ index ranges): the weakest invariant the rule properties need.
pub fn inv_rules(s: &Scn) -> bool {
    s.move_number < usize::MAX && s.board.well_formed() && model::pending_ok(&s.board, s.gold, s.step, s.pending)
}

pub fn render_board(b: &Board) -> String {
    let mut out = String::new();
    for r in 0..8u8 {
        for f in 0..8u8 {
            let c = b.cell(r * 8 + f);
            let ch = if !c.occ {
                if model::is_trap(r * 8 + f) {
                    'x'
                } else {
                    '.'
                }
            } else {
                let l = ['r', 'c', 'd', 'h', 'm', 'e'][c.ty as usize];
                if c.gold {
                    l.to_ascii_uppercase()
                } else {
                    l
                }
            };
            out.push(ch);
        }
        if r < 7 {
            out.push('/');
        }
    }
    out
}

pub fn sq_name(i: u8) -> String {
    format!("{}{}", (b'a' + model::file(i)) as char, 8 - model::row(i))
}

pub fn describe(s: &Scn) -> String {
    format!(
        "board={} side={} step={} pending={:?} trapped={} action={}{} probe={} move_number={} hash={:#x} initial={:#x} hist={:x?}",
        render_board(&s.board),
        if s.gold { "gold" } else { "silver" },
        s.step,
        s.pending,
        s.trapped,
        sq_name(s.a_sq),
        ['n', 'e', 's', 'w'][s.a_dir as usize],
        sq_name(s.probe),
        s.move_number,
        s.hash,
        s.initial,
        &s.hist[..s.hist_len]
    )
}
