//! Kani-only stubs (DESIGN.md §3.3, §3.4). Every stub that cuts behaviour carries an
//! assertion whose failure is classified by the driver as "cut violated" (inconclusive),
//! never as a pass.
#![allow(dead_code)]

use arimaa_engine_step::Square;
use std::alloc::{Allocator, Global};

// ---------------------------------------------------------------------------------------
// Allocation-policy stubs: the growth policy of Vec is unspecified by std; these versions
// keep every capacity concrete.
// ---------------------------------------------------------------------------------------

pub fn vec_reserve<T, A: Allocator>(v: &mut Vec<T, A>, additional: usize) {
    if v.capacity() == 0 {
        v.reserve_exact(16);
    }
    assert!(
        v.capacity() - v.len() >= additional,
        "CUT: Vec growth beyond fixed capacity (reserve)"
    );
}

pub fn vec_push<T, A: Allocator>(v: &mut Vec<T, A>, x: T) {
    if v.capacity() == 0 {
        v.reserve_exact(8);
    }
    let len = v.len();
    assert!(len < v.capacity(), "CUT: Vec growth beyond fixed capacity (push)");
    unsafe {
        std::ptr::write(v.as_mut_ptr().add(len), x);
        v.set_len(len + 1);
    }
}

pub fn vec_with_capacity<T>(n: usize) -> Vec<T> {
    // large elements (the per-turn board record, 64-byte boards, never more than 4): a 64-slot
    // buffer of them is a 4 KB byte array that CBMC copies and muxes byte-wise (measured: 15 M
    // variables, out of memory); small elements (actions, squares): 64 slots
    let cap = if std::mem::size_of::<T>() >= 32 { 4 } else { 64 };
    assert!(n <= cap, "CUT: Vec::with_capacity beyond fixed capacity");
    Vec::with_capacity_in(cap, Global)
}

// ---------------------------------------------------------------------------------------
// Projections of map_bit_board_to_squares (§3.4).
// ---------------------------------------------------------------------------------------

pub static mut FOCUS: u8 = 0;

pub fn set_focus(f: u8) {
    unsafe {
        FOCUS = f;
    }
}

/// Focus projection: the sub-list of the real result whose square is FOCUS.
pub fn mbts_focus(board: u64) -> Vec<Square> {
    let f = unsafe { FOCUS };
    let mut v: Vec<Square> = Vec::with_capacity_in(1, Global);
    if (board >> f) & 1 == 1 {
        unsafe {
            std::ptr::write(v.as_mut_ptr(), Square::from_index(f));
            v.set_len(1);
        }
    }
    v
}

/// Lowest-bit projection: preserves emptiness of the result exactly.
pub fn mbts_lowest(board: u64) -> Vec<Square> {
    let mut v: Vec<Square> = Vec::with_capacity_in(1, Global);
    if board != 0 {
        unsafe {
            std::ptr::write(
                v.as_mut_ptr(),
                Square::from_index(board.trailing_zeros() as u8),
            );
            v.set_len(1);
        }
    }
    v
}

/// `format!` is not the subject of any property that uses this stub.
pub fn fmt_format_stub(_args: std::fmt::Arguments<'_>) -> String {
    String::new()
}

/// Board-only harnesses never look at a hash: the incremental hash update is cut out
/// entirely (the C08 harnesses run the real one).
pub fn zobrist_move_piece_skip(
    z: &arimaa_engine_step::Zobrist,
    _prev: &arimaa_engine_step::GameState,
    _new_board: &arimaa_engine_step::PieceBoardState,
    _new_step: usize,
    _new_p1: bool,
) -> arimaa_engine_step::Zobrist {
    *z
}

// ---------------------------------------------------------------------------------------
// Hash abstractions (DESIGN §5 C08, §10): the hash delta is a GF(2)-linear combination of
// table entries whose coefficients do not depend on the table contents. Replacing the table
// by the indicator of ONE symbolic (square, type, owner) triple turns "the engine XORs exactly
// the values of the squares whose content changed" into a statement about one bit, and the
// triple is universally quantified by the solver.
// ---------------------------------------------------------------------------------------

pub static mut TARGET_SQ: u8 = 0;
pub static mut TARGET_TY: u8 = 0;
pub static mut TARGET_GOLD: bool = false;

pub fn set_target(sq: u8, ty: u8, gold: bool) {
    unsafe {
        TARGET_SQ = sq;
        TARGET_TY = ty;
        TARGET_GOLD = gold;
    }
}

pub fn piece_value_indicator(square: Square, piece: arimaa_engine_step::Piece, is_p1: bool) -> u64 {
    let ty = crate::scenario::ty_of(piece);
    let hit = unsafe { square.index() as u8 == TARGET_SQ && ty == TARGET_TY && is_p1 == TARGET_GOLD };
    if hit {
        1
    } else {
        0
    }
}

/// Abstract `Zobrist::move_piece` for the repetition predicates: two arbitrary values X_SAME /
/// X_OTHER (by the new side-to-move flag), after checking that the engine asks about the right
/// board (EXPECT words, set by the harness), step 0.
pub fn x_same_of(h: u64) -> u64 {
    h.rotate_left(17) ^ 0x9E37_79B9_7F4A_7C15
}
pub fn x_other_of(h: u64) -> u64 {
    h.rotate_left(41) ^ 0xC2B2_AE3D_27D4_EB4F
}
pub static mut EXPECT: [u64; 8] = [0; 8];
pub static mut EXPECT_ON: bool = false;

pub fn zobrist_move_piece_abstract(
    _z: &arimaa_engine_step::Zobrist,
    prev: &arimaa_engine_step::GameState,
    nb: &arimaa_engine_step::PieceBoardState,
    new_step: usize,
    new_p1: bool,
) -> arimaa_engine_step::Zobrist {
    unsafe {
        if EXPECT_ON {
            assert!(new_step == 0, "STRUCT: repetition predicate hashes a non-turn-start step");
            assert!(
                nb.p1_pieces == EXPECT[0]
                    && nb.rabbits == EXPECT[1]
                    && nb.cats == EXPECT[2]
                    && nb.dogs == EXPECT[3]
                    && nb.horses == EXPECT[4]
                    && nb.camels == EXPECT[5]
                    && nb.elephants == EXPECT[6]
                    && nb.all_pieces == EXPECT[7],
                "STRUCT: repetition predicate hashes a board that is not the result of the action"
            );
        }
        // digest of the board so that different actions get different (arbitrary) values
        let dig = nb.p1_pieces ^ nb.rabbits.rotate_left(7) ^ nb.cats.rotate_left(13) ^ nb.dogs.rotate_left(19)
            ^ nb.horses.rotate_left(29) ^ nb.camels.rotate_left(37) ^ nb.elephants.rotate_left(43);
        // the two "arbitrary" values are fixed scramblings of the (symbolic, arbitrary) state hash:
        // no static is written by the harnesses that do not check the board (writing a static mut
        // made unrelated constants such as the capacity of `Vec::new()` nondeterministic for CBMC -
        // spurious CUT failures in push-pending instances)
        let h = _z.board_state_hash();
        let x = if new_p1 == prev.is_p1_turn_to_move() { x_same_of(h) } else { x_other_of(h) };
        arimaa_engine_step::Zobrist::from_raw(x ^ dig)
    }
}

/// anyhow captures a backtrace for every error value; that goes through env lookups and lazy
/// statics that are irrelevant to every property here.
pub fn backtrace_capture_disabled() -> std::backtrace::Backtrace {
    std::backtrace::Backtrace::disabled()
}

/// Cut (recorded in evidence): a path ends where the first `anyhow!` error value is constructed.
/// In the four notation parsers what follows on such a path is only `Err(..)` propagation; the
/// construction itself (boxing, vtables, backtrace) is what made the parser harnesses intractable.
pub fn anyhow_format_err_cut(_args: std::fmt::Arguments<'_>) -> anyhow::Error {
    kani::assume(false);
    unreachable!()
}

/// Exact, loop-free version of `map_bit_board_to_squares` for masks with at most 3 bits (the diff
/// masks of one step from a position without unsupported trap piece). More bits violate the CUT
/// assertion (inconclusive, never a pass). Equivalence with the real loop on such masks is the
/// `mbts_contract_k4` harness.
pub fn mbts_upto3(board: u64) -> Vec<Square> {
    let mut v: Vec<Square> = Vec::with_capacity_in(3, Global);
    let mut b = board;
    let mut n = 0usize;
    crate::each!([0usize, 1, 2], _k, {
        if b != 0 {
            unsafe {
                std::ptr::write(v.as_mut_ptr().add(n), Square::from_index(b.trailing_zeros() as u8));
            }
            n += 1;
            b &= b - 1;
        }
    });
    assert!(b == 0, "CUT: diff mask with more than 3 bits");
    unsafe {
        v.set_len(n);
    }
    v
}
