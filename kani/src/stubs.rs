//! Kani-only stubs (DESIGN.md §3.3, §3.4). Every stub that cuts behaviour carries an
//! assertion whose failure is classified by the driver as "cut violated" (inconclusive),
//! never as a pass.
#![allow(dead_code)]

use arimaa_engine_step::Square;
use std::alloc::{Allocator, Global};

// ---------------------------------------------------------------------------------------
// Allocation-policy stubs: the growth policy of Vec is unspecified by std; these versions
// keep every capacity concrete.
// ---------------------------------------------------------------------------------------

pub fn vec_reserve<T, A: Allocator>(v: &mut Vec<T, A>, additional: usize) {
    if v.capacity() == 0 {
        v.reserve_exact(16);
    }
    assert!(
        v.capacity() - v.len() >= additional,
        "CUT: Vec growth beyond fixed capacity (reserve)"
    );
}

pub fn vec_push<T, A: Allocator>(v: &mut Vec<T, A>, x: T) {
    if v.capacity() == 0 {
        v.reserve_exact(8);
    }
    let len = v.len();
    assert!(len < v.capacity(), "CUT: Vec growth beyond fixed capacity (push)");
    unsafe {
        std::ptr::write(v.as_mut_ptr().add(len), x);
        v.set_len(len + 1);
    }
}

pub fn vec_with_capacity<T>(n: usize) -> Vec<T> {
    assert!(n <= 64, "CUT: Vec::with_capacity beyond fixed capacity");
    Vec::with_capacity_in(64, Global)
}

// ---------------------------------------------------------------------------------------
// Projections of map_bit_board_to_squares (§3.4).
// ---------------------------------------------------------------------------------------

pub static mut FOCUS: u8 = 0;

pub fn set_focus(f: u8) {
    unsafe {
        FOCUS = f;
    }
}

/// Focus projection: the sub-list of the real result whose square is FOCUS.
pub fn mbts_focus(board: u64) -> Vec<Square> {
    let f = unsafe { FOCUS };
    let mut v: Vec<Square> = Vec::with_capacity_in(1, Global);
    if (board >> f) & 1 == 1 {
        unsafe {
            std::ptr::write(v.as_mut_ptr(), Square::from_index(f));
            v.set_len(1);
        }
    }
    v
}

/// Lowest-bit projection: preserves emptiness of the result exactly.
pub fn mbts_lowest(board: u64) -> Vec<Square> {
    let mut v: Vec<Square> = Vec::with_capacity_in(1, Global);
    if board != 0 {
        unsafe {
            std::ptr::write(
                v.as_mut_ptr(),
                Square::from_index(board.trailing_zeros() as u8),
            );
            v.set_len(1);
        }
    }
    v
}

/// `format!` is not the subject of any property that uses this stub.
pub fn fmt_format_stub(_args: std::fmt::Arguments<'_>) -> String {
    String::new()
}

/// Board-only harnesses never look at a hash: the incremental hash update is cut out
/// entirely (the C08 harnesses run the real one).
pub fn zobrist_move_piece_skip(
    z: &arimaa_engine_step::Zobrist,
    _prev: &arimaa_engine_step::GameState,
    _new_board: &arimaa_engine_step::PieceBoardState,
    _new_step: usize,
    _new_p1: bool,
) -> arimaa_engine_step::Zobrist {
    *z
}
