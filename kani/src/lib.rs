//! Harness crate for solver-based checking of arimaa-engine-step (see /verif/DESIGN.md).
//! Every property body is an ordinary function of one input byte vector; it is compiled
//! (a) under Kani as a proof harness over `kani::any()` and (b) natively for replay.
#![cfg_attr(kani, feature(allocator_api))]
#![allow(clippy::all)]

#[macro_use]
pub mod macros;
pub mod model;
pub mod props;
pub mod scenario;
#[cfg(kani)]
pub mod stubs;

/// Result of running a property body natively.
#[derive(Clone, Copy, PartialEq, Eq, Debug)]
pub enum Verdict {
    /// All assumptions held and all assertions passed.
    Held,
    /// The input does not satisfy the harness's assumptions (not a counterexample).
    Skipped,
}

pub type Body = fn(&scenario::Inp) -> Verdict;
