"""Which harnesses decide which property, per tier (DESIGN.md §5/§6)."""

INP_LEN = 320
CAP = {"quick": 900, "thorough": 3600, "candidates": 3600}     # wall-clock cap per harness (s)
MEM_GB_SOLO = 52                           # solo retry after an out-of-memory run
MEM_GB = 24                                # RLIMIT_AS per harness process tree

INST = [(0, "none"), (1, "none"), (1, "pull"), (1, "push"), (2, "none"), (2, "pull"), (2, "push"),
        (3, "none"), (3, "pull"), (3, "push")]


def inst(prefix, which=None, **kw):
    out = []
    for s, k in INST:
        if which is not None and (s, k) not in which:
            continue
        d = {"h": "%s_s%d_%s" % (prefix, s, k), "unwind": 8, "stubs": "alloc+focus"}
        d.update(kw)
        out.append(d)
    return out


ALLOC_STUBS = ("Vec::reserve / Vec::push / Vec::with_capacity replaced by fixed-capacity versions whose "
               "capacity assertion is a proof obligation of the same run (DESIGN §3.3)")
FOCUS_NOTE = ("map_bit_board_to_squares replaced by its focus projection; the board/turn path of take_action "
              "never calls it, only the (unexamined) incremental hash does (DESIGN §3.4)")
INV_RULES = "pre-state: B1 (type boards disjoint, p1 within all) and T2 (pending status consistent with board)"

PLAN = {}

PLAN["C02"] = {
    "quick": inst("c02_move", [(0, "none"), (1, "pull"), (3, "push")]) + [{"h": "c02_pass_s1_pull"}],
    "thorough": inst("c02_move") + [{"h": "c02_pass_s1_pull"}, {"h": "c02_pass_s3_none"}],
    "bounds": "all 64-square boards, both sides, symbolic action and probe square; step and pending kind concrete per instance; unwind 8",
    "outside": "quick tier: only 3 of the 10 (step x pending) instances; popcount-style material statements are derived, not solver-checked",
    "stubs": ALLOC_STUBS + "; " + FOCUS_NOTE,
    "assumptions": [INV_RULES, "the action is a legal step by the rule model (C01 shows offered = legal)"],
}

NOHASH_NOTE = ("Zobrist::move_piece (incremental hash) cut out: these bodies examine board and turn fields only; "
               "the hash path is decided by the C08 harnesses (DESIGN §3.4)")
Q3 = [(0, "none"), (1, "pull"), (3, "push")]


def nh(jobs):
    for j in jobs:
        j["stubs"] = "alloc+nohash"
    return jobs


PLAN["C02"]["quick"] = nh(inst("c02_move", Q3)) + [{"h": "c02_pass_s1_pull", "unwind": 8, "stubs": "alloc+nohash"}]
PLAN["C02"]["thorough"] = nh(inst("c02_move")) + [{"h": "c02_pass_s1_pull", "unwind": 8, "stubs": "alloc+nohash"},
                                                    {"h": "c02_pass_s3_none", "unwind": 8, "stubs": "alloc+nohash"}]
PLAN["C02"]["stubs"] = ALLOC_STUBS + "; " + NOHASH_NOTE

PASS6 = [(1, "none"), (1, "pull"), (2, "none"), (2, "pull"), (3, "none"), (3, "pull")]
PLAN["C03"] = {
    "quick": nh(inst("c03_move", [(0, "none"), (2, "pull"), (3, "none"), (3, "push")]) + inst("c03_pass", [(1, "pull"), (3, "none")])),
    "thorough": nh(inst("c03_move") + inst("c03_pass", PASS6)),
    "bounds": "all boards, both sides, any move number < usize::MAX (symbolic 64-bit), symbolic legal action; step/pending kind concrete per instance; unwind 8",
    "outside": "move_number == usize::MAX (the increment overflows; unreachable by play, DESIGN §8 D5)",
    "stubs": ALLOC_STUBS + "; " + NOHASH_NOTE,
    "assumptions": [INV_RULES, "move_number < usize::MAX", "the action is a legal step by the rule model / a legal pass"],
}
PLAN["C12"] = {
    "quick": nh(inst("c12_move", [(0, "none"), (1, "pull"), (2, "push")])) + [
        {"h": "c12_push_list_s1_push", "unwind": 8, "stubs": "alloc"}, {"h": "c12_pass_s1_pull", "unwind": 8, "stubs": "alloc+nohash"}],
    "thorough": nh(inst("c12_move")) + [{"h": "c12_push_list_s%d_push" % s, "unwind": 8, "stubs": "alloc"} for s in (1, 2, 3)] + [
        {"h": "c12_pass_s1_pull", "unwind": 8, "stubs": "alloc+nohash"}, {"h": "c12_pass_s3_none", "unwind": 8, "stubs": "alloc+nohash"}],
    "bounds": "all boards, both sides, symbolic legal action, symbolic pending square/piece; unwind 8",
    "outside": "quick tier: 3 of 10 take_action instances",
    "stubs": ALLOC_STUBS + "; " + NOHASH_NOTE,
    "assumptions": [INV_RULES, "the action is a legal step by the rule model"],
}
PLAN["C13"] = {
    "quick": nh(inst("c13_move", [(0, "none"), (1, "pull"), (2, "push")])) + [{"h": "c13_pass_s1_pull", "unwind": 8, "stubs": "alloc+nohash"}],
    "thorough": nh(inst("c13_move")) + [{"h": "c13_pass_s1_pull", "unwind": 8, "stubs": "alloc+nohash"}, {"h": "c13_pass_s3_none", "unwind": 8, "stubs": "alloc+nohash"}],
    "bounds": "all boards with no unsupported trap piece (B3), both sides, all four traps, symbolic legal action; unwind 8",
    "outside": "pre-states with an unsupported trap piece (parsed positions before their first action): there one step can remove several pieces",
    "stubs": ALLOC_STUBS + "; " + NOHASH_NOTE,
    "assumptions": [INV_RULES, "B3: no unsupported trap piece in the pre-state", "the action is a legal step by the rule model"],
}
PLAN["C14"] = {
    "quick": nh(inst("c14_move", [(0, "none"), (2, "pull"), (3, "none")])) + [{"h": "c14_pass_s1_pull", "unwind": 8, "stubs": "alloc+nohash"}],
    "thorough": nh(inst("c14_move")) + [{"h": "c14_pass_s1_pull", "unwind": 8, "stubs": "alloc+nohash"}, {"h": "c14_pass_s3_none", "unwind": 8, "stubs": "alloc+nohash"}],
    "bounds": "all boards, arbitrary recorded earlier boards (3 x 7 symbolic words), symbolic legal action; unwind 8",
    "outside": "quick tier: 3 of 10 instances",
    "stubs": ALLOC_STUBS + "; " + NOHASH_NOTE,
    "assumptions": [INV_RULES, "the action is a legal step by the rule model"],
}

PROJ_NOTE = ("map_bit_board_to_squares replaced by its projection on a symbolic focus square (every fact about the "
             "entries of the real list from that square is preserved; the focus is universally quantified); "
             "the real loop's contract is decided by mbts_contract_k*, element-wise consumption by the un-projected c01_small* runs")


def c01(prefix, which=None, unwind=10, stubs="alloc+focus", **kw):
    return inst(prefix, which, unwind=unwind, stubs=stubs, **kw)


PLAN["C01"] = {
    "quick": c01("c01_proj", [(0, "none"), (1, "pull"), (1, "push"), (3, "pull")]) +
             c01("c01_small2", [(0, "none"), (2, "pull")], stubs="alloc") +
             [{"h": "mbts_contract_k4", "unwind": 6, "stubs": "alloc"}],
    "thorough": c01("c01_proj") + c01("c01_small2", stubs="alloc") + c01("c01_small4", unwind=18, stubs="alloc") +
                [{"h": "mbts_contract_k4", "unwind": 6, "stubs": "alloc"}, {"h": "mbts_contract_k12", "unwind": 14, "stubs": "alloc"}],
    "bounds": ("c01_proj: all 64-square boards (no piece-count bound), both sides, symbolic focus square and direction, "
               "symbolic pending square/piece, unwind 10; c01_small<KP>: un-projected, boards with <= KP pieces (2 quick, 4 thorough); "
               "mbts_contract: masks with <= K set bits (4 quick, 12 thorough)"),
    "outside": ("masks with more than K bits in the loop contract; element-wise consumption by callers on boards with more than KP pieces; "
                "'can be continued to a complete legal turn' is the induction C01+C03+C12 (push started => completion exists), not a separate solver query"),
    "stubs": ALLOC_STUBS + "; " + PROJ_NOTE,
    "assumptions": [INV_RULES],
}

LOWEST_NOTE = ("map_bit_board_to_squares replaced by its lowest-bit projection (has_move/is_terminal only test each "
               "generator's list for emptiness, which the projection preserves exactly)")
MID = [(1, "none"), (1, "pull"), (1, "push"), (2, "none"), (2, "pull"), (2, "push"), (3, "none"), (3, "pull"), (3, "push")]
PLAN["C04"] = {
    "quick": [{"h": "c04_start", "unwind": 8, "stubs": "alloc+lowest"}] +
             inst("c04_mid", [(1, "pull"), (2, "none"), (3, "push")], unwind=10, stubs="alloc+lowest") +
             [{"h": "c09_offered", "unwind": 8, "stubs": "alloc"}],
    "thorough": [{"h": "c04_start", "unwind": 8, "stubs": "alloc+lowest"}] + inst("c04_mid", MID, unwind=10, stubs="alloc+lowest") +
                [{"h": "c09_offered", "unwind": 8, "stubs": "alloc"}],
    "bounds": ("turn start: all boards satisfying B1 (any material incl. no rabbits), both sides, all 8 goal files per side, "
               "arbitrary hashes/history (<= 6 entries); mid-turn: all boards, symbolic pending; setup: every reachable setup board"),
    "outside": "mid-turn at step 3 without a capture this turn (steps may be withheld by repetition; decided under C07/C05)",
    "stubs": ALLOC_STUBS + "; " + LOWEST_NOTE,
    "assumptions": ["B1", "mid-turn: T2; at step 3 a capture happened this turn"],
}
PLAN["C09"] = {
    "quick": [{"h": "c09_offered", "unwind": 8, "stubs": "alloc"}, {"h": "c09_place", "unwind": 8, "stubs": "alloc"},
              {"h": "c09_initial", "unwind": 8, "stubs": "alloc"}],
    "thorough": [{"h": "c09_offered", "unwind": 8, "stubs": "alloc"}, {"h": "c09_place", "unwind": 8, "stubs": "alloc"},
                 {"h": "c09_initial", "unwind": 8, "stubs": "alloc"}],
    "bounds": ("every reachable setup board: k in 0..31 placements done, the first k squares of the order filled with any "
               "types within the per-side limits (covers all 64,864,800^2 orders and all their prefixes), symbolic hash, symbolic placed type"),
    "outside": "nothing inside the setup phase; states not satisfying the generator predicate are unreachable by induction (base: c09_initial, step: c09_place)",
    "stubs": ALLOC_STUBS,
    "assumptions": ["setup-state generator predicate (inductive: established by c09_initial, preserved by c09_place)"],
}
PLAN["C10"] = {
    "quick": nh(inst("c10_step", [(0, "none"), (1, "pull"), (2, "push")])) + [{"h": "c10_access", "unwind": 8, "stubs": "alloc"},
                                                                               {"h": "c09_place", "unwind": 8, "stubs": "alloc"}],
    "thorough": nh(inst("c10_step")) + [{"h": "c10_access", "unwind": 8, "stubs": "alloc"}, {"h": "c09_place", "unwind": 8, "stubs": "alloc"}],
    "bounds": "all boards satisfying B1+B2, symbolic legal step, symbolic probed square / type / side for the accessors; setup via the C09 generator",
    "outside": "the printed diagram (Display goes through core::fmt; character-level output is outside reach, DESIGN §9/§5 C10)",
    "stubs": ALLOC_STUBS + "; " + NOHASH_NOTE,
    "assumptions": [INV_RULES, "B2 in the pre-state", "the action is a legal step by the rule model"],
}
PLAN["C17"] = {
    "quick": [{"h": "c17_piece_values", "unwind": 8, "stubs": "none"}, {"h": "c17_side_step", "unwind": 8, "stubs": "none"},
              {"h": "c17_pending", "unwind": 8, "stubs": "none"}, {"h": "c17_direct_k2", "unwind": 8, "stubs": "alloc"}],
    "thorough": [{"h": "c17_piece_values", "unwind": 8, "stubs": "none"}, {"h": "c17_side_step", "unwind": 8, "stubs": "none"},
                 {"h": "c17_pending", "unwind": 8, "stubs": "none"}, {"h": "c17_direct_k2", "unwind": 8, "stubs": "alloc"},
                 {"h": "c17_direct_k3", "unwind": 8, "stubs": "alloc"}],
    "bounds": ("all 768 piece-square values pairwise, side value, 4 step values pairwise, all 641 pending statuses pairwise "
               "(symbolic indices into the real tables through the public Zobrist API); direct statement on states with <= KP pieces"),
    "outside": "that the hash of a reachable state is the XOR of exactly these values is C08",
    "stubs": ALLOC_STUBS + " (direct harness only)",
    "assumptions": ["C08 (hash = XOR of feature values) links the value facts to states"],
}

FULL = {"mode": "full"}
CUT_NOTE = ("parser harnesses: paths end where the first anyhow! error value is constructed (anyhow::private::format_err cut); what follows on "
            "such paths in the four parsers is only Err propagation (read); allocation-policy stubs for the Vec<char> collections")
C16_COMMON = ([{"h": "c16_" + n, "unwind": 8, "stubs": "alloc+anyhow-cut", "mode": "full"} for n in ["square_parse", "piece_parse", "dir_parse"]] +
              [{"h": "c16_" + n, "unwind": 8, "stubs": "none", "mode": "full"} for n in
               ["square_conv", "print_square", "print_piece_dir", "print_action_move_d0", "print_action_move_d1", "print_action_move_d2", "print_action_move_d3", "print_action_pass", "print_action_place"]])
PLAN["C16"] = {
    "quick": C16_COMMON + [{"h": "c16_action_parse_len%d" % l, "unwind": 8, "stubs": "alloc+anyhow-cut", "mode": "full"} for l in (0, 1, 2, 3)],
    "thorough": C16_COMMON + [{"h": "c16_action_parse_len%d" % l, "unwind": 8, "stubs": "alloc+anyhow-cut", "mode": "full"} for l in (0, 1, 2, 3, 4)],
    "bounds": ("parsers: every byte string of length <= 3 (Square, Piece, Direction) / exactly 0..3 (quick) or 0..4 (thorough) bytes (Action) "
               "that is valid UTF-8, i.e. including 2- and 3-byte characters; round trips: all 64 squares, 6 pieces, 4 directions, 263 actions; "
               "all Kani checks on (overflow, bounds, unwrap, slicing)"),
    "outside": "strings longer than the bound (they fail the chars().len() test before any indexing - read, not solver-checked)",
    "stubs": CUT_NOTE,
    "assumptions": [],
}
def c20(n):
    return {"h": "c20_list_n%d" % n, "unwind": "3 (recursion) / %d (loops)" % (n + 2), "stubs": "none", "loops_unwind": n + 2,
            "recursion_is_violation": True, "mode": "func"}


PLAN["C20"] = {
    "quick": [c20(1), c20(2), c20(12),
              {"h": "c20_state", "unwind": "3 (recursion) / 9 (loops)", "stubs": "alloc", "loops_unwind": 9, "recursion_is_violation": True}],
    "thorough": [c20(1), c20(2), c20(12), c20(32),
                 {"h": "c20_state", "unwind": "3 (recursion) / 9 (loops)", "stubs": "alloc", "loops_unwind": 9, "recursion_is_violation": True}],
    "bounds": ("history lists of length 1, 2, 12 (and 32 thorough) with arbitrary contents, 2 at game-state level: build, clone, count occurrences "
               "(the engine's repetition scan), end a turn, drop - with recursion depth limited to 3 and CBMC's recursion unwinding assertions on"),
    "outside": ("other lengths: a recursion bound that holds for 1, 2, 12 and 32 nodes and is independent of the contents cannot depend on the length; the native run at "
                "300 000 turns on a 2 MiB thread is corroboration only; Debug-formatting a state is recursive and not part of the claim"),
    "stubs": "none for the list harnesses; allocation-policy stubs for the state harness",
    "assumptions": [],
}
SYMQ = [(0, "none"), (1, "pull"), (2, "push")]
PLAN["C11"] = {
    "quick": sum([inst("c11_actions_" + n, [(0, "none"), (1, "pull")], unwind=10, stubs="alloc+focus") +
                  inst("c11_terminal_" + n, [(0, "none")], unwind=10, stubs="alloc+lowest") +
                  nh(inst("c11_take_" + n, [(0, "none"), (2, "push")])) for n in ("mirror", "swap")], []),
    "thorough": sum([inst("c11_actions_" + n, unwind=10, stubs="alloc+focus") +
                     inst("c11_terminal_" + n, unwind=10, stubs="alloc+lowest") +
                     nh(inst("c11_take_" + n)) for n in ("mirror", "swap")], []),
    "bounds": "all boards, both symmetries (their composition follows), symbolic focus/action; one step of the game (induction over steps)",
    "outside": ("which actions the repetition rules withhold: Zobrist values are not symmetric, so this part is covered through C06's "
                "characterisation (symmetric by construction), not by a relational query"),
    "stubs": ALLOC_STUBS + "; " + PROJ_NOTE + "; " + LOWEST_NOTE + "; " + NOHASH_NOTE,
    "assumptions": [INV_RULES],
}

PLAN["C17"]["quick"] = [j for j in PLAN["C17"]["quick"] if j["h"] != "c17_direct_k2"]
PLAN["C17"]["thorough"] = [j for j in PLAN["C17"]["thorough"] if not j["h"].startswith("c17_direct")] + [
    {"h": "c17_direct_k2", "unwind": 8, "stubs": "alloc", "cap": 7200}]

ABS_NOTE = ("Zobrist::move_piece abstracted by two arbitrary 64-bit values (same side / other side) xor a digest of the board it is asked "
            "about, after asserting that this board is the result of the action and the step is 0; its concrete meaning is the C08 step lemma")
UPTO3_NOTE = ("in the C08 step lemma map_bit_board_to_squares is replaced by an exact loop-free version for masks with <= 3 bits whose "
              "CUT assertion fails on larger masks (equivalence with the real loop: mbts_contract_k4)")
IND_NOTE = ("the private 768-entry table lookup zobrist::piece_value replaced by the indicator of one symbolic (square, type, owner) triple: "
            "the hash delta is GF(2)-linear in the table with table-independent coefficients, so agreement for every triple is agreement for every "
            "table, in particular the real one (whose distinctness facts are C17)")
COLLISION = "distinct positions compared by the repetition rules have distinct 64-bit hashes (cannot be discharged by any technique; single-feature cases: C17)"


def hs(names, **kw):
    return [dict({"h": n}, **kw) for n in names]


PLAN["C08"] = {
    "quick": inst("c08_step", [(0, "none"), (3, "pull")], stubs="alloc+absmove-or-indicator") + hs(["c08_pass_s1_pull", "c08_place", "c08_views_s1_pull", "mbts_contract_k4"], unwind=8, stubs="alloc") +
             hs(["c08_from_scratch_k3"], unwind=8, stubs="alloc+absmove-or-indicator"),
    "thorough": inst("c08_step", stubs="alloc+absmove-or-indicator", cap=5400) + hs(["c08_pass_s%d_%s" % (a, b) for a, b in PASS6] + ["c08_place"] +
                     ["c08_views_s0_none", "c08_views_s1_pull", "c08_views_s2_push", "c08_views_s3_none"], unwind=8, stubs="alloc") +
                hs(["c08_from_scratch_k3", "c08_from_scratch_k6"], unwind=8, stubs="alloc+absmove-or-indicator", cap=7200),
    "bounds": ("step lemma: all boards without unsupported trap piece, both sides, symbolic legal step, symbolic pre-hash, history <= 4 arbitrary entries, "
               "symbolic target triple; pass and placement: all states; from-scratch function: boards with <= KP pieces (3 quick, 6 thorough); real map_bit_board_to_squares, unwind 8"),
    "outside": "from-scratch hash of boards with more than KP pieces (the parser's path); boards with an unsupported trap piece in the step lemma (diff masks up to 6 bits still fit unwind 8, but B3 is assumed)",
    "stubs": ALLOC_STUBS + "; " + IND_NOTE + "; " + UPTO3_NOTE,
    "assumptions": [INV_RULES, "B3 in the pre-state of the step lemma", "the action is a legal step by the rule model"],
}
PLAN["C05"] = {
    "quick": hs(["c05_can_pass_s1_pull", "c05_can_pass_s3_none"], unwind=8, stubs="alloc") +
             hs(["c05_passing_like_s3_none"], unwind=8, stubs="alloc+absmove") +
             inst("c08_step", [(3, "none")], stubs="alloc+absmove-or-indicator") + hs(["c08_pass_s2_none", "c08_place"], unwind=8, stubs="alloc"),
    "thorough": hs(["c05_can_pass_s%d_%s" % (a, b) for a, b in INST] + ["c08_place"], unwind=8, stubs="alloc") +
                hs(["c05_passing_like_s3_%s" % k for k in ("none", "pull", "push")], unwind=8, stubs="alloc+absmove") +
                inst("c08_step", [(3, "none"), (3, "pull"), (3, "push")], stubs="alloc+absmove-or-indicator", cap=5400) +
                hs(["c08_pass_s%d_%s" % (a, b) for a, b in PASS6], unwind=8, stubs="alloc") +
                hs(["c06_whole1_s3_%s" % k for k in ("none", "pull", "push")], unwind=8, stubs="alloc+absmove-or-indicator") +
                hs(["c06_whole2_s3_%s" % k for k in ("none", "pull", "push")], unwind=10, stubs="alloc+absmove-or-indicator", cap=5400),
    "bounds": "all boards; hashes, turn-initial hash and up to 6 history entries are arbitrary 64-bit values; whole-function runs on boards with <= 2 pieces",
    "outside": "history lists longer than 6 entries (the count is a fold over the list); C05.4 (discarding history at captures is harmless) is a written monotonicity argument over C02/C08 invariants; the no-collision assumption",
    "stubs": ALLOC_STUBS + "; " + ABS_NOTE + "; " + IND_NOTE,
    "assumptions": [INV_RULES, COLLISION],
}
PLAN["C06"] = {
    "quick": hs(["c06_remove_s3_none", "c06_remove_s2_pull"], unwind=8, stubs="alloc+absmove") +
             hs(["c06_whole1_s3_none"], unwind=8, stubs="alloc+absmove") + hs(["c06_whole2_s2_push"], unwind=10, stubs="alloc+absmove") +
             hs(["c05_passing_like_s3_pull"], unwind=8, stubs="alloc+absmove"),
    "thorough": hs(["c06_remove_s3_none", "c06_remove_s3_pull", "c06_remove_s3_push", "c06_remove_s2_pull", "c06_remove_s1_none"], unwind=8, stubs="alloc+absmove", cap=5400) +
                hs(["c06_whole1_s3_none", "c06_whole1_s3_pull", "c06_whole1_s3_push"], unwind=8, stubs="alloc+absmove", cap=5400) +
                inst("c06_whole2", unwind=10, stubs="alloc+absmove-or-indicator", cap=5400) + inst("c06_whole3", [(3, "none"), (3, "pull"), (3, "push")], unwind=14, stubs="alloc+indicator+upto3", cap=7200) +
                hs(["c05_passing_like_s3_%s" % k for k in ("none", "pull", "push")], unwind=8, stubs="alloc+absmove"),
    "bounds": "private filter: all boards, arbitrary 2-entry lists (steps or pass), history of 6 arbitrary entries; whole functions: boards with <= 1 piece (quick) / <= 2, <= 3 at step 3 (thorough), history of 4 arbitrary entries",
    "outside": ("whole-function list relation on boards with more pieces (the filter is applied entry-wise by Vec::retain; decided on arbitrary lists through the hook); "
                "known gap: a seeded change that applies the filter without its guard in the push-completion branch (seeded/C06-b) makes the push-pending whole-function "
                "harness end without a verdict (exit 2) instead of a reproduced violation"),
    "stubs": ALLOC_STUBS + "; " + ABS_NOTE + "; " + IND_NOTE + " (the list relation is table-independent)",
    "assumptions": [INV_RULES, COLLISION],
}
PN = ["term", "hasmove", "canpass"]
PLAN["C07"] = {
    "quick": hs(["c07_summary_term_s0_none", "c07_summary_term_s2_none", "c07_summary_hasmove_s1_push", "c07_summary_canpass_s1_none"], unwind=16, stubs="alloc+lowest") +
             hs(["c07_has_non_passing_s3_none"], unwind=8, stubs="alloc+absmove") +
             hs(["c07_summary_term_s3_push"], unwind=16, stubs="alloc+lowest") + hs(["c09_offered"], unwind=8, stubs="alloc"),
    "thorough": hs(["c07_summary_%s_s%d_%s" % (pn, a, b) for pn in PN for a, b in INST], unwind=16, stubs="alloc+lowest", cap=5400) +
                hs(["c07_has_non_passing_s3_none", "c07_has_non_passing_s3_pull", "c07_has_non_passing_s3_push", "c07_has_non_passing_s2_pull"], unwind=8, stubs="alloc+absmove", cap=5400) +

                hs(["c05_can_pass_s%d_%s" % (a, b) for a, b in INST], unwind=8, stubs="alloc") + hs(["c09_offered"], unwind=8, stubs="alloc"),
    "bounds": ("all boards for steps 0-2 and for step 3 after a capture (lowest-bit projection); step 3 without capture: private summary on arbitrary lists of <= 2 steps "
               "(all boards) and whole functions on boards with <= 2 pieces; history <= 6 arbitrary entries; setup: every reachable setup board"),
    "outside": ("whole-function relations at step 3 WITHOUT a capture this turn (there the 4th-step filter is hash-dependent): decided only at the level of the private "
                "summary on arbitrary lists (c07_has_non_passing) and of the list relation on 1-piece boards (C06 c06_whole1); the projected+abstract whole-function "
                "harness for this case ran out of memory (24 GB) and is not part of the check"),
    "stubs": ALLOC_STUBS + "; " + LOWEST_NOTE + "; " + ABS_NOTE + "; " + IND_NOTE,
    "assumptions": [INV_RULES],
}
def c19(insts, parts, **kw):
    out = []
    for st, k in insts:
        for pn in parts:
            if pn == "pass" and (st == 0 or k == "push"):
                continue
            d = {"h": "c19_%s_s%d_%s" % (pn, st, k), "unwind": 12, "stubs": "alloc+focus", "mode": "func"}
            if pn in ("apply", "pass"):
                d.update({"loops_unwind": 12, "unwind": "2 (recursion) / 12 (loops)", "cap": 1500})
            out.append(dict(d, **kw))
    return out


PLAN["C19"] = {
    "quick": c19([(0, "none"), (2, "push")], ["lists", "queries"]) + c19([(3, "pull")], ["lists"]) +
             c19([(1, "pull"), (3, "none")], ["apply", "pass"]) +
             hs(["c19_setup_queries", "c19_setup_place"], unwind=8, stubs="alloc", mode="func") + hs(["c19_mbts_k4"], unwind=6, stubs="alloc", mode="full"),
    "thorough": c19(INST, ["lists", "queries", "apply", "pass"], cap=5400) +
                hs(["c19_setup_queries", "c19_setup_place"], unwind=8, stubs="alloc", mode="func") + hs(["c19_mbts_k4"], unwind=6, stubs="alloc", mode="full") +
                hs(["c19_mbts_k12"], unwind=14, stubs="alloc", mode="full"),
    "bounds": ("every invariant-satisfying play state (all boards, symbolic pending, history <= 6, move number < usize::MAX) and every setup board; "
               "queries: valid_actions(_no_rep), is_terminal, has_move, can_pass, transposition_hash, piece_board_for_step(j <= step), accessors, "
               "trapped_animal_for_action and take_action for an arbitrary OFFERED action (entry k of the engine's list) / pass / offered placement; "
               "every Rust panic (explicit, unwrap/expect, index bounds, arithmetic and shift overflow with overflow-checks on) is an assertion; "
               "CBMC's pointer-level instrumentation off except for the map_bit_board_to_squares harness; history of 2 arbitrary entries"),
    "outside": ("the printed form (Display through core::fmt did not finish within the cap even on a concrete state); piece_board_for_step/current_step during setup "
                "(they panic by design: there is no turn); move_number == usize::MAX; map_bit_board_to_squares on masks with more than 12 bits"),
    "stubs": ALLOC_STUBS + "; " + PROJ_NOTE,
    "assumptions": [INV_RULES, "move_number < usize::MAX"],
}

# ---- after the concrete-history change every take_action harness runs in 15-70 s: the quick tier
# ---- of these families covers all 10 (step x pending) instances (a seeded change that needs
# ---- step 3 + pending pull was missed by the 4-instance quick tier)
for _p in ("C02", "C03", "C10", "C12", "C13", "C14"):
    PLAN[_p]["quick"] = list(PLAN[_p]["thorough"])
    PLAN[_p]["outside"] = PLAN[_p]["outside"].replace("quick tier: only 3 of the 10 (step x pending) instances; ", "").replace(
        "quick tier: 3 of 10 take_action instances", "nothing inside the stated bounds").replace("quick tier: 3 of 10 instances", "nothing inside the stated bounds")


# ---- recursion-bounded harnesses: declared with global unwind 2 (bounds recursion, i.e. the drop glue of the
# ---- history list, which is never entered at run time in these harnesses but was explored 8 levels deep);
# ---- every loop gets its own bound 8 through --unwindset (loop ids from cbmc --show-loops)
REC_NOTE = "global unwind 2 bounds recursion only; all loops are given bound 8 through --unwindset (unwinding assertions on for both)"
for _p in PLAN:
    for _t in ("quick", "thorough"):
        for _j in PLAN[_p][_t]:
            if _j["h"].startswith("c08_step_") or _j["h"].startswith("c08_pass_"):
                _j["loops_unwind"] = 8
                _j["unwind"] = "2 (recursion) / 8 (loops)"
                _j.setdefault("cap", 1500)
for _p in PLAN:
    for _t in ("quick", "thorough"):
        for _j in PLAN[_p][_t]:
            if _j["h"].startswith("c08_from_scratch"):
                _j["stubs"] = "alloc+indicator (real map_bit_board_to_squares loop)"
for _p in PLAN:
    for _t in ("quick", "thorough"):
        for _j in PLAN[_p][_t]:
            if _j["h"].startswith("c08_step_"):
                _j["stubs"] = "alloc+indicator+upto3"
            if _j["h"].startswith("c06_whole") or _j["h"].startswith("c07_small"):
                _j["stubs"] = "alloc+absmove (real map_bit_board_to_squares loop)"

# ---- thorough tiers: only harnesses that have been validated on the unchanged tree are registered
# ---- (an unvalidated deep harness that hits its cap would make the thorough command exit 2).
# ---- CANDIDATES keeps the deeper instances; bin/check <P> --tier candidates runs them for validation.
VALIDATED_EXTRA = {}
try:
    import json as _json, os as _os
    _vp = _os.path.join(_os.path.dirname(_os.path.abspath(__file__)), "validated_thorough.json")
    if _os.path.exists(_vp):
        VALIDATED_EXTRA = _json.load(open(_vp))
except Exception:  # noqa
    VALIDATED_EXTRA = {}
for _p in PLAN:
    _q = {j["h"] for j in PLAN[_p]["quick"]}
    _cand = [j for j in PLAN[_p]["thorough"] if j["h"] not in _q]
    PLAN[_p]["candidates"] = _cand
    _ok = set(VALIDATED_EXTRA.get(_p, []))
    PLAN[_p]["thorough"] = list(PLAN[_p]["quick"]) + [j for j in _cand if j["h"] in _ok]
