"""Which harnesses decide which property, per tier (DESIGN.md §5/§6)."""

INP_LEN = 320
CAP = {"quick": 900, "thorough": 3600}     # wall-clock cap per harness (s)
MEM_GB = 14                                # RLIMIT_AS per harness process tree

INST = [(0, "none"), (1, "none"), (1, "pull"), (1, "push"), (2, "none"), (2, "pull"), (2, "push"),
        (3, "none"), (3, "pull"), (3, "push")]


def inst(prefix, which=None, **kw):
    out = []
    for s, k in INST:
        if which is not None and (s, k) not in which:
            continue
        d = {"h": "%s_s%d_%s" % (prefix, s, k), "unwind": 8, "stubs": "alloc+focus"}
        d.update(kw)
        out.append(d)
    return out


ALLOC_STUBS = ("Vec::reserve / Vec::push / Vec::with_capacity replaced by fixed-capacity versions whose "
               "capacity assertion is a proof obligation of the same run (DESIGN §3.3)")
FOCUS_NOTE = ("map_bit_board_to_squares replaced by its focus projection; the board/turn path of take_action "
              "never calls it, only the (unexamined) incremental hash does (DESIGN §3.4)")
INV_RULES = "pre-state: B1 (type boards disjoint, p1 within all) and T2 (pending status consistent with board)"

PLAN = {}

PLAN["C02"] = {
    "quick": inst("c02_move", [(0, "none"), (1, "pull"), (3, "push")]) + [{"h": "c02_pass_s1_pull"}],
    "thorough": inst("c02_move") + [{"h": "c02_pass_s1_pull"}, {"h": "c02_pass_s3_none"}],
    "bounds": "all 64-square boards, both sides, symbolic action and probe square; step and pending kind concrete per instance; unwind 8",
    "outside": "quick tier: only 3 of the 10 (step x pending) instances; popcount-style material statements are derived, not solver-checked",
    "stubs": ALLOC_STUBS + "; " + FOCUS_NOTE,
    "assumptions": [INV_RULES, "the action is a legal step by the rule model (C01 shows offered = legal)"],
}
